//! Drivers for the read-only properties (C10 locate, C11 hull, C15 queries) and for C13 / C14.

use crate::dispatch;
use crate::drivers::*;
use crate::ops::*;
use crate::ops2::*;
use crate::points::*;
use crate::proj::*;
use delaunay::core::delaunay_triangulation::DelaunayRepairPolicy;
use delaunay::core::triangulation_data_structure::{CellKey, VertexKey};
use delaunay::geometry::kernel::{FastKernel, RobustKernel};

/// all lattice points of the bounding box of `pts` extended by one unit (sampled if too many)
fn query_points(r: &mut Rng, pts: &[Vec<i64>], cap: usize) -> Vec<Vec<i64>> {
    let d = pts[0].len();
    let lo: Vec<i64> = (0..d).map(|i| pts.iter().map(|p| p[i]).min().unwrap() - 1).collect();
    let hi: Vec<i64> = (0..d).map(|i| pts.iter().map(|p| p[i]).max().unwrap() + 1).collect();
    let mut all: Vec<Vec<i64>> = vec![vec![]];
    for i in 0..d {
        let mut nxt = Vec::new();
        for p in &all {
            for x in lo[i]..=hi[i] {
                let mut q = p.clone();
                q.push(x);
                nxt.push(q);
            }
        }
        all = nxt;
        if all.len() > 200_000 {
            break;
        }
    }
    if all.len() > cap {
        r.shuffle(&mut all);
        all.truncate(cap);
        // always keep the vertices themselves and a far point
        for p in pts.iter().take(4) {
            all.push(p.clone());
        }
    }
    all
}

/// bring a triangulation into some "reachable state class": after insertions, removals,
/// flips + repair; returns keys that went stale on the way
fn churn<K: Kern<D>, const D: usize>(cx: &mut Ctx, r: &mut Rng, dt: &mut Dt<K, D>, mode: usize) -> (Vec<CellKey>, Vec<VertexKey>) {
    let before_c: Vec<CellKey> = dt.tds().cell_keys().collect();
    let before_v: Vec<VertexKey> = dt.tds().vertex_keys().collect();
    // a random sequence of 0..5 mutations: insertions, removals (then re-insertions reuse freed
    // storage slots), Edit-API flips, repair
    let steps = if mode % 4 == 0 { 0 } else { 2 + r.below(4) };
    let mut removed_pos: Vec<Vec<i64>> = Vec::new();
    if mode % 2 == 1 {
        // systematic slot recycling ON THE HULL: vertices in early storage slots that are extreme on some axis are
        // removed and re-inserted at the same position (fresh uuid): the new hull vertex sits in a re-used slot
        // (higher version) next to older vertices in later slots
        let vs: Vec<_> = dt.vertices().map(|(_, v)| *v).collect();
        let half = vs.len().div_ceil(2);
        let mut done = 0;
        for v in vs.iter().take(half) {
            if done >= 2 || dt.number_of_vertices() <= D + 2 {
                break;
            }
            let c = v.point().coords();
            let extreme = (0..D).any(|j| vs.iter().all(|w| w.point().coords()[j] >= c[j]) || vs.iter().all(|w| w.point().coords()[j] <= c[j]));
            let (m, pert, _, _) = cx.tr.coord_proj(c);
            if !extreme || pert {
                continue;
            }
            if !op_remove(&mut cx.tr, 0, dt, v.uuid()) {
                break;
            }
            if find_vertex(dt, v.uuid()).is_some() {
                continue; // refused (rolled back)
            }
            let nv = VIn::lattice(cx.fresh_uuid(), m, Some(6));
            if !op_insert(&mut cx.tr, 0, dt, &nv, false) {
                break;
            }
            done += 1;
        }
    }
    for _ in 0..steps {
        match r.below(5) {
            0 | 1 => {
                let p = if !removed_pos.is_empty() && r.chance(1, 2) { removed_pos.pop().unwrap() } else { random_points(r, D, 1, max_coord(D))[0].clone() };
                let v = VIn::lattice(cx.fresh_uuid(), p, Some(5));
                if !op_insert(&mut cx.tr, 0, dt, &v, false) {
                    break;
                }
            }
            2 | 3 => {
                let vs: Vec<_> = dt.vertices().map(|(_, v)| *v).collect();
                if vs.len() > D + 2 {
                    let v = *r.pick(&vs);
                    let (m, pert, _, _) = cx.tr.coord_proj(v.point().coords());
                    if !op_remove(&mut cx.tr, 0, dt, v.uuid()) {
                        break;
                    }
                    if !pert {
                        removed_pos.push(m);
                    }
                }
            }
            _ => {
                let cks: Vec<CellKey> = dt.tds().cell_keys().collect();
                if cks.is_empty() {
                    break;
                }
                for _ in 0..2 {
                    let ck = *r.pick(&cks);
                    let fa = FlipArg::K2(ck, r.below(D + 1) as u8);
                    let out = op_flip(&mut cx.tr, 0, dt, &fa, 0, "churn");
                    if out.panicked {
                        break;
                    }
                }
                op_repair(&mut cx.tr, 0, dt, false, None, 7);
            }
        }
    }
    let stale_c: Vec<CellKey> = before_c.into_iter().filter(|k| !dt.tds().contains_cell(*k)).collect();
    let stale_v: Vec<VertexKey> = before_v.into_iter().filter(|k| dt.tds().get_vertex_by_key(*k).is_none()).collect();
    (stale_c, stale_v)
}

fn queries_case<K: Kern<D>, const D: usize>(cx: &mut Ctx, r: &mut Rng, idx: usize) {
    let g = GUARANTEES[idx % 3];
    cx.start_case(format!("C10/C11/C15 queries D={D} k={} i={idx}", K::NAME));
    let hi = max_coord(D);
    let n = (D + 2 + r.below(max_points(D) - D - 2)).min(max_points(D) - 2);
    let pts = match idx % 3 {
        0 => gp_points(r, D, n.min(8), hi),
        1 => random_points(r, D, n, hi),
        _ => degenerate_points(r, D, n, hi),
    };
    if pts.len() < D + 1 {
        return;
    }
    let input = cx.inputs(&pts, true);
    let Some(mut dt) = op_construct::<K, D>(&mut cx.tr, 0, Ctor::WithGuarantee, g, Opts::default_like(), &input) else { return };
    let (stale_c, stale_v) = churn(cx, r, &mut dt, idx / 3);
    if dt.number_of_cells() == 0 {
        return;
    }
    let (fk, _, fv) = stale_and_foreign(&dt, &cx.tr, cx.seed + idx as u64);
    // C15
    let miss_v = stale_v.first().copied().or(fv);
    let miss_c = stale_c.first().copied().or(fk);
    if !op_queries(&mut cx.tr, 0, &dt, miss_v, miss_c) {
        return;
    }
    // C10: all lattice queries x hints
    let cur_pts: Vec<Vec<i64>> = dt.vertices().map(|(_, v)| cx.tr.coord_proj(v.point().coords()).0).collect();
    let cap = match D {
        2 => if cx.thorough { 400 } else { 120 },
        3 => if cx.thorough { 300 } else { 80 },
        _ => if cx.thorough { 120 } else { 40 },
    };
    let qs = query_points(r, &cur_pts, cap);
    let mut hints: Vec<Hint> = vec![Hint::None];
    let mut cks: Vec<CellKey> = dt.tds().cell_keys().collect();
    r.shuffle(&mut cks);
    let nh = if cx.thorough { cks.len() } else { cks.len().min(4) };
    for ck in cks.iter().take(nh) {
        hints.push(Hint::Cell(*ck));
    }
    if let Some(sk) = stale_c.first() {
        hints.push(Hint::Stale(*sk));
    }
    if let Some(k) = fk {
        hints.push(Hint::Foreign(k));
    }
    if !op_locate_batch(&mut cx.tr, 0, &dt, &qs, &hints) {
        return;
    }
    // the Bowyer-Watson building blocks on the same queries
    let cq: Vec<Vec<i64>> = qs.iter().take(if cx.thorough { 150 } else { 50 }).cloned().collect();
    if !op_conflict_batch(&mut cx.tr, 0, &dt, &cq) {
        return;
    }
    if !op_extend_hull_batch(&mut cx.tr, 0, &dt, &cq) {
        return;
    }
    // C11: hull creation, queries, then one mutating op of each kind followed by queries
    let Some(hull) = op_hull_create(&mut cx.tr, 0, &dt) else { return };
    let hq: Vec<Vec<i64>> = qs.iter().take(if cx.thorough { 160 } else { 90 }).cloned().collect();
    if !op_hull_query_batch(&mut cx.tr, 0, &dt, &hull, &hq, "fresh") {
        return;
    }
    let few: Vec<Vec<i64>> = hq.iter().take(6).cloned().collect();
    // (a) a failed mutation (duplicate insert): either stale or still the right answers
    if let Some(p) = cur_pts.first() {
        let dup = VIn::lattice(cx.fresh_uuid(), p.clone(), None);
        if !op_insert(&mut cx.tr, 0, &mut dt, &dup, false) {
            return;
        }
        if !op_hull_query_batch(&mut cx.tr, 0, &dt, &hull, &few, "after failed insert") {
            return;
        }
    }
    // (b) a failed flip (boundary facet / out of range)
    let ck0 = dt.tds().cell_keys().next().unwrap();
    let out = op_flip(&mut cx.tr, 0, &mut dt, &FlipArg::K2(ck0, (D + 1) as u8), 0, "out-of-range");
    if out.panicked {
        return;
    }
    if !op_hull_query_batch(&mut cx.tr, 0, &dt, &hull, &few, "after failed flip") {
        return;
    }
    // (c) mutate a CLONE (shares the generation counter)
    if idx % 2 == 0 {
        let mut c = op_clone(&mut cx.tr, 0, 1, &dt);
        let p = random_points(r, D, 1, hi)[0].clone();
        let v = VIn::lattice(cx.fresh_uuid(), p, None);
        if !op_insert(&mut cx.tr, 1, &mut c, &v, false) {
            return;
        }
        if !op_hull_query_batch(&mut cx.tr, 0, &dt, &hull, &few, "after clone mutated") {
            return;
        }
    }
    // (d) successful mutations of each kind, each followed by queries (must be stale)
    let which = (idx / 2) % 5;
    match which {
        0 => {
            let p = random_points(r, D, 1, hi)[0].clone();
            let v = VIn::lattice(cx.fresh_uuid(), p, None);
            if !op_insert(&mut cx.tr, 0, &mut dt, &v, true) {
                return;
            }
        }
        1 => {
            let vs: Vec<_> = dt.vertices().map(|(_, v)| v.uuid()).collect();
            let u = *r.pick(&vs);
            if !op_remove(&mut cx.tr, 0, &mut dt, u) {
                return;
            }
        }
        2 => {
            let cks: Vec<CellKey> = dt.tds().cell_keys().collect();
            for ck in cks {
                let mut done = false;
                for i in 0..=(D as u8) {
                    let out = op_flip(&mut cx.tr, 0, &mut dt, &FlipArg::K2(ck, i), 0, "hull-mutation");
                    if out.panicked {
                        return;
                    }
                    if out.ok {
                        done = true;
                        break;
                    }
                }
                if done {
                    break;
                }
            }
        }
        3 => {
            if !op_repair(&mut cx.tr, 0, &mut dt, true, None, 7) {
                return;
            }
        }
        _ => {
            if !op_set_policy(&mut cx.tr, 0, &mut dt, PolicySet::Repair(DelaunayRepairPolicy::Never)) {
                return;
            }
        }
    }
    op_hull_query_batch(&mut cx.tr, 0, &dt, &hull, &few, "after mutation");
}

/// C10 on NON-Delaunay triangulations: a long silent walk of legal flips away from Delaunay (repair off), then every
/// lattice query under every hint. On such complexes the visibility walk can cycle, which is the only way small
/// inputs reach the cycle detection and the scan fallback of locate.
fn nondelaunay_locate_case<K: Kern<D>, const D: usize>(cx: &mut Ctx, r: &mut Rng, idx: usize) {
    let g = GUARANTEES[idx % 3];
    cx.start_case(format!("C10 nondelaunay D={D} k={} i={idx}", K::NAME));
    let hi = max_coord(D);
    let n = if D == 2 { 9 + r.below(4) } else { 7 + r.below(3) };
    let pts = if idx % 2 == 0 { gp_points(r, D, n.min(9), hi) } else { random_points(r, D, n, hi) };
    if pts.len() < D + 3 {
        return;
    }
    let input = cx.inputs(&pts, true);
    let vs: Vec<_> = input.iter().map(|v| v.vertex::<D>(0)).collect();
    let Ok(mut dt) = Dt::<K, D>::with_topology_guarantee(&K::default(), &vs, g) else { return };
    dt.set_delaunay_repair_policy(DelaunayRepairPolicy::Never);
    let want = 10 + r.below(20);
    let walked = silent_walk(&mut dt, r, want);
    if walked == 0 || dt.as_triangulation().validate().is_err() {
        return;
    }
    let post = cx.tr.project(&dt);
    cx.tr.emit("Adopt", 0, serde_json::json!({"D": D, "why": "non-Delaunay triangulation reached by a silent flip walk"}), serde_json::json!({}), Some(post), false);
    let cur_pts: Vec<Vec<i64>> = dt.vertices().map(|(_, v)| cx.tr.coord_proj(v.point().coords()).0).collect();
    let qs = query_points(r, &cur_pts, if cx.thorough { 400 } else { 150 });
    let mut hints: Vec<Hint> = vec![Hint::None];
    for ck in dt.tds().cell_keys() {
        hints.push(Hint::Cell(ck));
    }
    op_locate_batch(&mut cx.tr, 0, &dt, &qs, &hints);
}

/// The twisted pinwheel of spec/MC_LocateWalk.tla in the real library: the visibility walk of `locate` cycles on it
/// (TLC: MC_LocateWalk_pinwheel_cycles), so these calls go through the cycle detection and the scan fallback. The
/// complex is reached from the Delaunay triangulation of the six points by the three flips a search found, and the
/// slots of the ring triangles are rotated (an even permutation, neighbours rotated with them: still a valid,
/// coherently oriented complex) so that the first outside facet is the one towards the next ring triangle.
fn pinwheel_case<K: Kern<2>>(cx: &mut Ctx, r: &mut Rng, rotate: bool) {
    cx.start_case(format!("C10 pinwheel D=2 k={} rotate={rotate}", K::NAME));
    let pts: Vec<Vec<i64>> = vec![vec![0, 0], vec![24, 0], vec![12, 20], vec![6, 2], vec![11, 2], vec![11, 4]];
    let input = cx.inputs(&pts, true);
    let uu: Vec<uuid::Uuid> = input.iter().map(|v| v.uuid).collect();
    let Some(mut dt) = op_construct::<K, 2>(&mut cx.tr, 0, Ctor::WithGuarantee, GUARANTEES[1], Opts::default_like(), &input) else { return };
    op_set_policy(&mut cx.tr, 0, &mut dt, PolicySet::Repair(DelaunayRepairPolicy::Never));
    let key_of = |dt: &Dt<K, 2>, i: usize| find_vertex(dt, uu[i - 1]).map(|(k, _)| k);
    for (a, b) in [(1usize, 5usize), (2, 6), (3, 4)] {
        let (Some(ka), Some(kb)) = (key_of(&dt, a), key_of(&dt, b)) else { return };
        let hit = dt.cells().find_map(|(ck, c)| {
            let vs = c.vertices();
            if vs.contains(&ka) && vs.contains(&kb) { vs.iter().position(|v| *v != ka && *v != kb).map(|i| (ck, i as u8)) } else { None }
        });
        let Some((ck, i)) = hit else { return };
        if !op_flip(&mut cx.tr, 0, &mut dt, &FlipArg::K2(ck, i), 0, "towards the pinwheel").ok {
            return;
        }
    }
    // is it the pinwheel?
    let want: Vec<[usize; 3]> = vec![[1, 2, 4], [2, 4, 5], [2, 3, 5], [3, 5, 6], [1, 3, 6], [1, 4, 6], [4, 5, 6]];
    let idx_of = |dt: &Dt<K, 2>, vk: VertexKey| (1..=6).find(|i| key_of(dt, *i) == Some(vk)).unwrap_or(0);
    let mut have: Vec<[usize; 3]> = dt.cells().map(|(_, c)| { let mut t = [0usize; 3]; for (j, v) in c.vertices().iter().enumerate() { t[j] = idx_of(&dt, *v); } t.sort_unstable(); t }).collect();
    have.sort_unstable();
    let mut w = want.clone();
    w.sort_unstable();
    if have != w {
        return;
    }
    if rotate {
        // vertex that must sit in slot 0 of each ring triangle (facet 0 = the edge towards the next ring triangle)
        let first: [([usize; 3], usize); 6] = [([1, 2, 4], 1), ([2, 4, 5], 4), ([2, 3, 5], 2), ([3, 5, 6], 5), ([1, 3, 6], 3), ([1, 4, 6], 6)];
        let mut tds = dt.tds().clone();
        let cks: Vec<CellKey> = tds.cell_keys().collect();
        for ck in cks {
            let vs: Vec<VertexKey> = tds.get_cell(ck).unwrap().vertices().to_vec();
            let mut ids: Vec<usize> = vs.iter().map(|v| idx_of(&dt, *v)).collect();
            let mut sorted = ids.clone();
            sorted.sort_unstable();
            let Some((_, f)) = first.iter().find(|(t, _)| t.to_vec() == sorted) else { continue };
            let Some(cell) = tds.get_cell_by_key_mut(ck) else { continue };
            let mut guard = 0;
            while ids[0] != *f && guard < 3 {
                cell.verif_vertices_mut().rotate_left(1);
                if let Some(nb) = cell.verif_neighbors_mut().as_mut() {
                    nb.rotate_left(1);
                }
                ids.rotate_left(1);
                guard += 1;
            }
        }
        dt = Dt::<K, 2>::from_tds_with_topology_guarantee(tds, K::default(), GUARANTEES[1]);
        dt.set_delaunay_repair_policy(DelaunayRepairPolicy::Never);
        if dt.as_triangulation().validate().is_err() {
            return;
        }
        let post = cx.tr.project(&dt);
        cx.tr.emit("Adopt", 0, serde_json::json!({"D": 2, "why": "pinwheel with rotated slots (even permutations)"}), serde_json::json!({}), Some(post), false);
    }
    let cur_pts: Vec<Vec<i64>> = dt.vertices().map(|(_, v)| cx.tr.coord_proj(v.point().coords()).0).collect();
    let qs = query_points(r, &cur_pts, 700);
    let mut hints: Vec<Hint> = vec![Hint::None];
    for ck in dt.tds().cell_keys() {
        hints.push(Hint::Cell(ck));
    }
    op_locate_batch(&mut cx.tr, 0, &dt, &qs, &hints);
}

/// A long thin strip (two rows of 20 points): walks from a hint at one end to a query at the other take more steps
/// than any other corpus mesh (38 cells in a row), which is what a step budget that depends on the mesh size, or a
/// scan that trusts the walk's visited set, needs in order to matter.
fn strip_locate_case<K: Kern<2>>(cx: &mut Ctx, r: &mut Rng, idx: usize) {
    cx.start_case(format!("C10 strip D=2 k={} i={idx}", K::NAME));
    let mut pts: Vec<Vec<i64>> = Vec::new();
    for i in 0..20i64 {
        pts.push(vec![3 * i, (i * (idx as i64 + 1)) % 2]);
        pts.push(vec![3 * i + 1, 3 + ((i + idx as i64) % 2)]);
    }
    let input = cx.inputs(&pts, false);
    let Some(dt) = op_construct::<K, 2>(&mut cx.tr, 0, Ctor::WithGuarantee, GUARANTEES[1], Opts::default_like(), &input) else { return };
    let cur_pts: Vec<Vec<i64>> = dt.vertices().map(|(_, v)| cx.tr.coord_proj(v.point().coords()).0).collect();
    let mut qs = query_points(r, &cur_pts, 16);
    // points strictly between the two rows: strictly inside a cell or on an interior edge, all along the strip
    for i in 0..19i64 {
        qs.push(vec![3 * i + 1 + (i + idx as i64) % 2, 2]);
        qs.push(vec![3 * i + 2, 2]);
    }
    let mut hints: Vec<Hint> = vec![Hint::None];
    for ck in dt.tds().cell_keys() {
        hints.push(Hint::Cell(ck));
    }
    op_locate_batch(&mut cx.tr, 0, &dt, &qs, &hints);
}

pub fn drive_queries(cx: &mut Ctx) {
    for i in 0..2usize {
        if !cx.mine() {
            continue;
        }
        let mut r = Rng::new(cx.seed * 3_000_043 + i as u64);
        if i % 2 == 0 { strip_locate_case::<FastKernel<f64>>(cx, &mut r, i) } else { strip_locate_case::<RobustKernel<f64>>(cx, &mut r, i) }
    }
    for (i, rotate) in [false, true, true, false].into_iter().enumerate() {
        if !cx.mine() {
            continue;
        }
        let mut r = Rng::new(cx.seed * 3_000_017 + i as u64);
        if i % 2 == 0 {
            pinwheel_case::<FastKernel<f64>>(cx, &mut r, rotate);
        } else {
            pinwheel_case::<RobustKernel<f64>>(cx, &mut r, rotate);
        }
    }
    for d in 2..=3usize {
        for i in 0..(if cx.thorough { 60 } else { 16 }) {
            let mut r = Rng::new(cx.seed * 3_000_029 + (d * 100_000 + i) as u64);
            if !cx.mine() {
                continue;
            }
            let k = (i / 2) % 2;
            match (d, k) {
                (2, 0) => nondelaunay_locate_case::<FastKernel<f64>, 2>(cx, &mut r, i),
                (2, _) => nondelaunay_locate_case::<RobustKernel<f64>, 2>(cx, &mut r, i),
                (_, 0) => nondelaunay_locate_case::<FastKernel<f64>, 3>(cx, &mut r, i),
                (_, _) => nondelaunay_locate_case::<RobustKernel<f64>, 3>(cx, &mut r, i),
            }
        }
    }
    let per_dim = if cx.thorough { 60 } else { 10 };
    for d in 2..=5usize {
        for i in 0..per_dim {
            let mut r = Rng::new(cx.seed * 2_000_003 + (d * 100_000 + i) as u64);
            if !cx.mine() {
                continue;
            }
            let k = (i / 3) % 2;
            dispatch!(d, k, queries_case(cx, &mut r, i));
        }
    }
}

// ---------------------------------------------------------------------------------------
// C13: serialisation round trip, then the same continuation on original and copy
// ---------------------------------------------------------------------------------------
fn serde_case<K: Kern<D>, const D: usize>(cx: &mut Ctx, r: &mut Rng, idx: usize) {
    let g = GUARANTEES[idx % 3];
    cx.start_case(format!("C13 serde D={D} k={} i={idx}", K::NAME));
    let hi = max_coord(D);
    let n = (D + 3 + r.below(3)).min(max_points(D) - 2);
    let pts = if idx % 2 == 0 { gp_points(r, D, n.min(8), hi) } else { random_points(r, D, n, hi) };
    if pts.len() < D + 1 {
        return;
    }
    let mut input = cx.inputs(&pts, true);
    // signed zeros: every zero coordinate of some vertices is written as -0.0
    for (i, v) in input.iter_mut().enumerate() {
        if (i + idx) % 3 == 0 {
            v.off = NEG_ZERO_MARK;
        }
    }
    let Some(mut dt) = op_construct::<K, D>(&mut cx.tr, 0, Ctor::WithGuarantee, g, Opts::default_like(), &input) else { return };
    // key gaps: remove a vertex / flip before serialising
    let _ = churn(cx, r, &mut dt, idx / 2);
    let Some(mut copy) = op_serde(&mut cx.tr, 0, 1, &dt) else { return };
    op_verdicts(&mut cx.tr, 1, &copy, 7);
    op_compare(&mut cx.tr, 0, 1, "after round trip");
    // same continuation on both (general-position inputs only: the result is then unique)
    if idx % 2 == 0 && dt.number_of_cells() > 0 {
        let mut all = pts.clone();
        let mut steps = 0;
        while steps < 3 {
            steps += 1;
            let p: Vec<i64> = (0..D).map(|_| r.range(0, hi)).collect();
            if all.contains(&p) {
                continue;
            }
            all.push(p.clone());
            if !general_position(&all) {
                all.pop();
                continue;
            }
            let va = VIn::lattice(cx.fresh_uuid(), p, Some(77));
            if !op_insert(&mut cx.tr, 0, &mut dt, &va, false) {
                return;
            }
            if !op_insert(&mut cx.tr, 1, &mut copy, &va, false) {
                return;
            }
            op_compare(&mut cx.tr, 0, 1, "after insert on both");
        }
        // removal of the same vertex on both
        let vs: Vec<_> = dt.vertices().map(|(_, v)| v.uuid()).collect();
        if vs.len() > D + 2 {
            let u = *r.pick(&vs);
            if !op_remove(&mut cx.tr, 0, &mut dt, u) {
                return;
            }
            if !op_remove(&mut cx.tr, 1, &mut copy, u) {
                return;
            }
            op_compare(&mut cx.tr, 0, 1, "after removal on both");
        }
    }
}

/// round trips of triangulations WITHOUT cells: the bootstrap phase (fewer than D+1 vertices) and a lone simplex one
/// of whose vertices was removed again (D vertices, no cells, key gaps); then the same insertions on both
fn serde_cellless_case<K: Kern<D>, const D: usize>(cx: &mut Ctx, r: &mut Rng, idx: usize) {
    let g = GUARANTEES[idx % 3];
    cx.start_case(format!("C13 serde-cellless D={D} k={} i={idx}", K::NAME));
    let hi = max_coord(D);
    let pts = gp_points(r, D, D + 3, hi);
    if pts.len() < D + 3 {
        return;
    }
    let mut dt = op_empty::<K, D>(&mut cx.tr, 0, g);
    let nboot = if idx % 2 == 0 { idx / 2 % (D + 1) } else { D + 1 };
    let mut inserted = Vec::new();
    for p in pts.iter().take(nboot) {
        let v = VIn::lattice(cx.fresh_uuid(), p.clone(), Some(40 + inserted.len() as i32));
        if !op_insert(&mut cx.tr, 0, &mut dt, &v, false) {
            return;
        }
        inserted.push(v.uuid);
    }
    if idx % 2 == 1 {
        // the lone simplex loses a vertex again
        let u = inserted[idx / 2 % inserted.len()];
        if !op_remove(&mut cx.tr, 0, &mut dt, u) {
            return;
        }
    }
    let Some(mut copy) = op_serde(&mut cx.tr, 0, 1, &dt) else { return };
    op_compare(&mut cx.tr, 0, 1, "after round trip");
    for p in pts.iter().skip(nboot) {
        let v = VIn::lattice(cx.fresh_uuid(), p.clone(), Some(77));
        if !op_insert(&mut cx.tr, 0, &mut dt, &v, false) || !op_insert(&mut cx.tr, 1, &mut copy, &v, false) {
            return;
        }
    }
    op_compare(&mut cx.tr, 0, 1, "after insert on both");
}

pub fn drive_serde(cx: &mut Ctx) {
    for d in 2..=5usize {
        for i in 0..(if cx.thorough { 2 * (d + 1) } else { d + 1 }) {
            let mut r = Rng::new(cx.seed * 4_000_043 + (d * 100_000 + i) as u64);
            if !cx.mine() {
                continue;
            }
            let k = (i / 2) % 2;
            dispatch!(d, k, serde_cellless_case(cx, &mut r, i));
        }
    }
    let per_dim = if cx.thorough { 200 } else { 12 };
    for d in 2..=5usize {
        for i in 0..per_dim {
            let mut r = Rng::new(cx.seed * 4_000_037 + (d * 100_000 + i) as u64);
            if !cx.mine() {
                continue;
            }
            let k = (i / 2) % 2;
            dispatch!(d, k, serde_case(cx, &mut r, i));
        }
    }
}

// ---------------------------------------------------------------------------------------
// C16: toroidal (wrapping) construction, later insertions
// ---------------------------------------------------------------------------------------
fn toroidal_case<K: Kern<D>, const D: usize>(cx: &mut Ctx, r: &mut Rng, idx: usize) {
    let g = GUARANTEES[idx % 3];
    // periods in lattice units, scale exponent chosen so that periods like 0.5, 0.75, 1, 2, 3 occur
    let s = *r.pick(&[0, 0, -2, -3, 1]);
    cx.tr.s = s;
    cx.start_case(format!("C16 toroidal D={D} k={} s={s} i={idx}", K::NAME));
    let lm: Vec<i64> = (0..D).map(|_| *r.pick(&[4, 6, 8, 12, 3])).collect();
    let n = D + 2 + r.below(5);
    let mut input: Vec<VIn> = Vec::new();
    for i in 0..n {
        let m: Vec<i64> = (0..D)
            .map(|j| {
                let base = r.range(0, lm[j] - 1);
                let k = match r.below(6) {
                    0 => 0,
                    1 => 1,
                    2 => -1,
                    3 => r.range(-5, 5),
                    4 => r.range(-1_000, 1_000),
                    _ => if r.chance(1, 2) { 1 << 20 } else { -(1 << 20) },
                };
                // exactly on a face (m multiple of L) now and then
                let b = if r.chance(1, 8) { 0 } else { base };
                (b + k * lm[j]).clamp(-(1 << 28), 1 << 28)
            })
            .collect();
        input.push(VIn::lattice(cx.fresh_uuid(), m, Some(i as i32)));
    }
    // an off-lattice boundary probe: just below zero / just below L on axis 0
    if idx % 3 == 0 {
        let mut m = vec![0i64; D];
        for j in 1..D {
            m[j] = r.range(0, lm[j] - 1);
        }
        let off = if idx % 2 == 0 { -pow2(-60) * pow2(s) } else { -pow2(-70) };
        input.push(VIn { uuid: mk_uuid(cx.fresh_uuid()), m, off, cls: "probe", data: Some(99) });
    }
    // periodic image-point mode (2-D): the quotient torus itself
    if D == 2 && idx % 4 == 1 {
        // square and rectangular domains (either axis the longer one)
        let lmp: Vec<i64> = r.pick(&[vec![8i64, 8], vec![8, 16], vec![16, 8], vec![6, 12]]).clone();
        let npts = 10 + r.below(4);
        let mut base: Vec<Vec<i64>> = Vec::new();
        while base.len() < npts {
            let p: Vec<i64> = (0..2).map(|j| r.range(0, lmp[j] - 1)).collect();
            if !base.contains(&p) {
                base.push(p);
            }
        }
        let pin: Vec<VIn> = base
            .iter()
            .enumerate()
            .map(|(i, p)| {
                // congruent copies: shift by whole periods
                let m: Vec<i64> = p.iter().enumerate().map(|(j, x)| x + lmp[j] * r.range(-2, 2)).collect();
                VIn::lattice(cx.fresh_uuid(), m, Some(i as i32))
            })
            .collect();
        op_construct_toroidal::<K, D>(&mut cx.tr, 1, g, &lmp, true, &pin);
    }
    let Some(mut dt) = op_construct_toroidal::<K, D>(&mut cx.tr, 0, g, &lm, false, &input) else {
        cx.tr.s = 0;
        return;
    };
    op_verdicts(&mut cx.tr, 0, &dt, 7);
    // later insertions are wrapped the same way
    for t in 0..5 {
        let m: Vec<i64> = match t {
            // exactly on the upper face of one axis (the period itself), everything else inside the box
            3 => {
                let ax = r.below(D);
                (0..D).map(|j| if j == ax { lm[j] } else { r.range(0, lm[j] - 1) }).collect()
            }
            // faces and corners: every axis one of 0, L, L-1, -L, 2L or inside
            4 => (0..D)
                .map(|j| match r.below(6) {
                    0 => 0,
                    1 => lm[j],
                    2 => lm[j] - 1,
                    3 => -lm[j],
                    4 => 2 * lm[j],
                    _ => r.range(0, lm[j] - 1),
                })
                .collect(),
            _ => (0..D).map(|j| r.range(0, lm[j] - 1) + r.range(-3, 3) * lm[j]).collect(),
        };
        let v = VIn::lattice(cx.fresh_uuid(), m, Some(50));
        if !op_insert(&mut cx.tr, 0, &mut dt, &v, r.chance(1, 2)) {
            break;
        }
    }
    cx.tr.s = 0;
}

/// periodic image-point mode on square and rectangular 2-D domains (rectangular ones often fail to build in the
/// pinned revision - that is a typed Err; the ones that build are judged)
fn periodic_case<K: Kern<2>>(cx: &mut Ctx, r: &mut Rng, idx: usize) {
    let g = GUARANTEES[idx % 3];
    cx.tr.s = 0;
    let lmp: Vec<i64> = [vec![8i64, 16], vec![16, 8], vec![6, 12], vec![8, 8], vec![4, 12]][idx % 5].clone();
    cx.start_case(format!("C16 periodic D=2 k={} L={lmp:?} i={idx}", K::NAME));
    let npts = 10 + r.below(5);
    let mut base: Vec<Vec<i64>> = Vec::new();
    while base.len() < npts {
        let p: Vec<i64> = (0..2).map(|j| r.range(0, lmp[j] - 1)).collect();
        if !base.contains(&p) {
            base.push(p);
        }
    }
    let pin: Vec<VIn> = base
        .iter()
        .enumerate()
        .map(|(i, p)| {
            let m: Vec<i64> = p.iter().enumerate().map(|(j, x)| x + lmp[j] * r.range(-2, 2)).collect();
            VIn::lattice(cx.fresh_uuid(), m, Some(i as i32))
        })
        .collect();
    op_construct_toroidal::<K, 2>(&mut cx.tr, 1, g, &lmp, true, &pin);
}

pub fn drive_toroidal(cx: &mut Ctx) {
    for i in 0..(if cx.thorough { 400 } else { 40 }) {
        let mut r = Rng::new(cx.seed * 6_000_029 + i as u64);
        if !cx.mine() {
            continue;
        }
        if (i / 5) % 2 == 0 {
            periodic_case::<FastKernel<f64>>(cx, &mut r, i);
        } else {
            periodic_case::<RobustKernel<f64>>(cx, &mut r, i);
        }
    }
    let per_dim = if cx.thorough { 400 } else { 24 };
    for d in 2..=3usize {
        for i in 0..per_dim {
            let mut r = Rng::new(cx.seed * 6_000_011 + (d * 100_000 + i) as u64);
            if !cx.mine() {
                continue;
            }
            let k = (i / 3) % 2;
            match (d, k) {
                (2, 0) => toroidal_case::<FastKernel<f64>, 2>(cx, &mut r, i),
                (2, _) => toroidal_case::<RobustKernel<f64>, 2>(cx, &mut r, i),
                (_, 0) => toroidal_case::<FastKernel<f64>, 3>(cx, &mut r, i),
                (_, _) => toroidal_case::<RobustKernel<f64>, 3>(cx, &mut r, i),
            }
        }
    }
}

// ---------------------------------------------------------------------------------------
// C14: determinism and order independence
// ---------------------------------------------------------------------------------------
use crate::replay::replay_case;

fn opts_order_sensitive(o: &Opts) -> bool {
    o.order == 0 // Input order: the result may depend on the caller's order
}

fn key_of(d: usize, kname: &str, g: &str, ctor: &str, o: &Opts, pts: &[Vec<i64>], with_order: bool) -> String {
    let mut p: Vec<Vec<i64>> = pts.to_vec();
    if !with_order {
        p.sort();
    }
    format!("D{d}|{kname}|{}|{g}|{ctor}|{}|{:?}", profile(), o.name(), p)
}

fn det_construct<K: Kern<D>, const D: usize>(cx: &mut Ctx, pts: &[Vec<i64>], uuids: &[u64], ctor: Ctor, g: delaunay::core::triangulation::TopologyGuarantee, o: Opts) -> Option<Dt<K, D>> {
    let input: Vec<VIn> = pts.iter().zip(uuids.iter()).map(|(p, &u)| VIn::lattice(u, p.clone(), Some((u % 1000) as i32))).collect();
    cx.tr.dkey = key_of(D, K::NAME, &format!("{g:?}"), &format!("{ctor:?}"), &o, pts, opts_order_sensitive(&o));
    let r = op_construct::<K, D>(&mut cx.tr, 0, ctor, g, o, &input);
    cx.tr.dkey.clear();
    r
}

fn keytie_case<K: Kern<D>, const D: usize>(cx: &mut Ctx, r: &mut Rng, order: usize) {
    cx.start_case(format!("C14 keyties D={D} k={} order={order}", K::NAME));
    let w: i64 = 1 << 33;
    let mut pts: Vec<Vec<i64>> = Vec::new();
    for bits in 0..(1usize << D) {
        pts.push((0..D).map(|j| ((bits >> j) & 1) as i64).collect());
    }
    for j in 0..D {
        let mut p: Vec<i64> = (0..D).map(|i| 2 + ((i + j) % 3) as i64).collect();
        p[j] = w;
        pts.push(p);
    }
    let uuids: Vec<u64> = (0..pts.len()).map(|_| cx.fresh_uuid()).collect();
    let o = Opts { order, dedup: 0, simplex: 0, retry: 0 };
    let g = GUARANTEES[1];
    let nperm = if cx.thorough { 24 } else { 8 };
    let mut perms = crate::pure::permutations(pts.len(), nperm, r);
    perms.insert(0, (0..pts.len()).collect());
    perms.insert(1, (0..pts.len()).rev().collect());
    for ctor in [Ctor::WithOptions, Ctor::WithKernel] {
        if ctor == Ctor::WithKernel && order != 3 {
            continue;
        }
        for p in &perms {
            let pp: Vec<Vec<i64>> = p.iter().map(|&i| pts[i].clone()).collect();
            let uu: Vec<u64> = p.iter().map(|&i| uuids[i]).collect();
            det_construct::<K, D>(cx, &pp, &uu, ctor, g, o);
        }
    }
}

fn gridorder_case<K: Kern<D>, const D: usize>(cx: &mut Ctx, r: &mut Rng, order: usize) {
    cx.start_case(format!("C14 gridorder D={D} k={} order={order}", K::NAME));
    let side: i64 = if D == 2 { 4 } else { 2 };
    let mut pts: Vec<Vec<i64>> = vec![vec![]];
    for _ in 0..D {
        pts = pts.iter().flat_map(|p| (0..side).map(move |x| { let mut q = p.clone(); q.push(x); q })).collect();
    }
    // outliers: strict minimum on axis 0, strict maximum on the last axis
    let mut lo = vec![1i64; D];
    lo[0] = -3;
    pts.push(lo);
    let mut hi_p = vec![1i64; D];
    hi_p[D - 1] = side + 2;
    pts.push(hi_p);
    let uuids: Vec<u64> = (0..pts.len()).map(|_| cx.fresh_uuid()).collect();
    let o = Opts { order, dedup: 0, simplex: 0, retry: 0 };
    let g = GUARANTEES[1];
    let n = pts.len();
    let mut perms: Vec<Vec<usize>> = vec![(0..n).collect(), (0..n).rev().collect()];
    let step = if cx.thorough { 1 } else { 3 };
    let mut firsts: Vec<usize> = (0..n).step_by(step).collect();
    for extra in [n - 2, n - 1] {
        // the outliers (strict extremes on an axis) always get their turn
        if !firsts.contains(&extra) {
            firsts.push(extra);
        }
    }
    for first in firsts {
        // `first` leads, the rest in a shuffled order
        let mut rest: Vec<usize> = (0..n).filter(|i| *i != first).collect();
        r.shuffle(&mut rest);
        let mut p = vec![first];
        p.extend(rest);
        perms.push(p);
    }
    for p in &perms {
        let pp: Vec<Vec<i64>> = p.iter().map(|&i| pts[i].clone()).collect();
        let uu: Vec<u64> = p.iter().map(|&i| uuids[i]).collect();
        det_construct::<K, D>(cx, &pp, &uu, Ctor::WithOptions, g, o);
    }
}

fn determinism_case<K: Kern<D>, const D: usize>(cx: &mut Ctx, r: &mut Rng, idx: usize) {
    let g = GUARANTEES[idx % 3];
    cx.start_case(format!("C14 determinism D={D} k={} i={idx}", K::NAME));
    let hi = max_coord(D);
    let n = (D + 2 + r.below(4)).min(max_points(D) - 1);
    let mut pts = match idx % 4 {
        0 | 1 => gp_points(r, D, n.min(7), hi),
        2 => random_points(r, D, n, hi),
        _ => degenerate_points(r, D, n, hi),
    };
    if pts.len() < D + 1 {
        return;
    }
    // ties: an exact coordinate duplicate with a different uuid (dedup policies decide)
    if idx % 5 == 4 {
        let p = r.pick(&pts).clone();
        pts.push(p);
    }
    let uuids: Vec<u64> = (0..pts.len()).map(|_| cx.fresh_uuid()).collect();
    let o = Opts { order: [3, 1, 2, 0][(idx + idx / 4) % 4], dedup: (idx / 4) % 3, simplex: (idx / 12) % 2, retry: [0, 1, 3][(idx / 2) % 3] };
    let ctor = CTORS[1 + idx % 4];
    // (a) the same slice twice
    for _ in 0..2 {
        if let Some(dt) = det_construct::<K, D>(cx, &pts, &uuids, ctor, g, o) {
            crate::ops2::op_canon(&mut cx.tr, 0, &dt, 7);
        }
    }
    // (b) permutations of the slice (all for n <= 4, else sampled)
    let perms = crate::pure::permutations(pts.len(), if cx.thorough { 30 } else { 6 }, r);
    for p in perms.iter().take(if cx.thorough { 30 } else { 6 }) {
        let pp: Vec<Vec<i64>> = p.iter().map(|&i| pts[i].clone()).collect();
        let uu: Vec<u64> = p.iter().map(|&i| uuids[i]).collect();
        det_construct::<K, D>(cx, &pp, &uu, ctor, g, o);
    }
    // (c) every ordering strategy and both kernels must give THE Delaunay triangulation in general
    //     position (Canon event); the incremental route too
    for order in 0..4 {
        let oo = Opts { order, ..o };
        if let Some(dt) = det_construct::<K, D>(cx, &pts, &uuids, Ctor::WithOptions, g, oo) {
            crate::ops2::op_canon(&mut cx.tr, 0, &dt, 7);
        }
    }
    {
        let mut dt = op_empty::<K, D>(&mut cx.tr, 1, g);
        let mut ok = true;
        for (p, &u) in pts.iter().zip(uuids.iter()) {
            let v = VIn::lattice(u + 5_000_000, p.clone(), None);
            if !op_insert(&mut cx.tr, 1, &mut dt, &v, false) {
                ok = false;
                break;
            }
        }
        if ok {
            crate::ops2::op_canon(&mut cx.tr, 1, &dt, 7);
        }
    }
    // (d) four threads at once (thread-local state must not leak into results)
    {
        let s = cx.tr.s;
        let handles: Vec<_> = (0..4)
            .map(|_| {
                let pts = pts.clone();
                let uuids = uuids.clone();
                std::thread::spawn(move || {
                    let vs: Vec<_> = pts.iter().zip(uuids.iter()).map(|(p, &u)| VIn::lattice(u, p.clone(), Some((u % 1000) as i32)).vertex::<D>(s)).collect();
                    Dt::<K, D>::with_topology_guarantee_and_options(&K::default(), &vs, g, o.build(s)).ok()
                })
            })
            .collect();
        let input: Vec<VIn> = pts.iter().zip(uuids.iter()).map(|(p, &u)| VIn::lattice(u, p.clone(), Some((u % 1000) as i32))).collect();
        for h in handles {
            let res = h.join().ok().flatten();
            cx.tr.dkey = key_of(D, K::NAME, &format!("{g:?}"), "WithOptions", &o, &pts, opts_order_sensitive(&o));
            crate::ops2::emit_construct_result::<K, D>(&mut cx.tr, 0, "WithOptions", g, o, &input, res.as_ref(), "thread");
            cx.tr.dkey.clear();
        }
    }
}

pub fn drive_determinism(cx: &mut Ctx, out_path: &str) {
    let per_dim = if cx.thorough { 150 } else { 10 };
    for d in 2..=5usize {
        for i in 0..per_dim {
            let mut r = Rng::new(cx.seed * 8_000_009 + (d * 100_000 + i) as u64);
            if !cx.mine() {
                continue;
            }
            let k = (i / 2) % 2;
            dispatch!(d, k, determinism_case(cx, &mut r, i));
        }
    }
    // (f) ties in the ordering keys: a co-spherical cluster (corners of the unit cube) far below the
    //     resolution of the Hilbert / Morton keys (outliers at 2^33 units), listed in different orders
    for d in 2..=3usize {
        for k in 0..2usize {
            for oi in 0..4usize {
                if !cx.mine() {
                    continue;
                }
                let mut r = Rng::new(cx.seed * 8_000_011 + (d * 100 + k * 10 + oi) as u64);
                dispatch!(d, k, keytie_case(cx, &mut r, oi));
            }
        }
    }
    // (g) exactly degenerate sets (grids + an outlier) under every order-insensitive strategy, listed with every
    //     vertex first in turn: on such input the insertion order decides the cells, so any dependence of the
    //     ordering on the caller's listing shows
    for d in 2..=3usize {
        for k in 0..2usize {
            for order in 1..4usize {
                if !cx.mine() {
                    continue;
                }
                let mut r = Rng::new(cx.seed * 8_000_021 + (d * 100 + k * 10 + order) as u64);
                dispatch!(d, k, gridorder_case(cx, &mut r, order));
            }
        }
    }
    // (e) across processes: re-execute this trace's Construct events in a child process and append the
    //     child's events (same determinism keys) - TLC then compares them through `memo`
    cx.tr.flush();
    let exe = std::env::current_exe().expect("current exe");
    let child_out = format!("{out_path}.child");
    let st = std::process::Command::new(exe).args(["detchild", "--hist", out_path, "--out", &child_out]).status();
    if let Ok(s) = st {
        if s.success() {
            if let Ok(text) = std::fs::read_to_string(&child_out) {
                // interleave: for every parent case append the child's Construct events of the same case
                cx.tr.append_raw_cases(&text);
            }
        }
    }
    let _ = std::fs::remove_file(&child_out);
}

/// child process of the determinism driver: replays only Reset and Construct events
pub fn drive_detchild(tr: &mut Tracer, parent_trace: &str) {
    let text = std::fs::read_to_string(parent_trace).expect("read parent trace");
    let mut case: Vec<serde_json::Value> = Vec::new();
    let flush = |tr: &mut Tracer, case: &mut Vec<serde_json::Value>| {
        if case.is_empty() {
            return;
        }
        let d = case.iter().find_map(|e| e["args"]["D"].as_u64()).unwrap_or(0) as usize;
        let k = case.iter().find_map(|e| e["args"]["kernel"].as_str().map(str::to_string)).unwrap_or_default();
        match (d, k.as_str()) {
            (2, "Fast") => replay_case::<FastKernel<f64>, 2>(tr, case),
            (2, _) => replay_case::<RobustKernel<f64>, 2>(tr, case),
            (3, "Fast") => replay_case::<FastKernel<f64>, 3>(tr, case),
            (3, _) => replay_case::<RobustKernel<f64>, 3>(tr, case),
            (4, "Fast") => replay_case::<FastKernel<f64>, 4>(tr, case),
            (4, _) => replay_case::<RobustKernel<f64>, 4>(tr, case),
            (5, "Fast") => replay_case::<FastKernel<f64>, 5>(tr, case),
            (5, _) => replay_case::<RobustKernel<f64>, 5>(tr, case),
            _ => {}
        }
        case.clear();
    };
    for line in text.lines() {
        if line.trim().is_empty() {
            continue;
        }
        let e: serde_json::Value = serde_json::from_str(line).unwrap();
        match e["ev"].as_str().unwrap_or("") {
            "Reset" => {
                flush(tr, &mut case);
                case.push(e);
            }
            "Construct" if e["args"]["dkey"].as_str().is_some_and(|s| !s.is_empty()) && e["args"]["note"].as_str() != Some("thread") => case.push(e),
            _ => {}
        }
    }
    flush(tr, &mut case);
}

// ---------------------------------------------------------------------------------------
// C19: extreme magnitudes, non-finite coordinates at every entry point
// ---------------------------------------------------------------------------------------
use delaunay::core::vertex::Vertex;
use delaunay::geometry::point::Point;
use delaunay::geometry::traits::coordinate::Coordinate;
use delaunay::triangulation::flips::BistellarFlips;

fn raw_call(tr: &mut Tracer, name: &str, detail: serde_json::Value, f: impl FnOnce() -> String) {
    let g = tr.guard(name, f);
    match g {
        Guarded::Done(kind) => {
            tr.emit("RawCall", 0, serde_json::json!({"call": name, "detail": detail}), serde_json::json!({"kind": kind}), None, false);
        }
        Guarded::Panicked(msg) => {
            tr.emit("RawCall", 0, serde_json::json!({"call": name, "detail": detail}), serde_json::json!({"kind": "Panic", "msg": msg}), None, true);
        }
    }
}

fn raw_vertex<const D: usize>(c: [f64; D], n: u64) -> Vertex<f64, VData, D> {
    Vertex::new_with_uuid(Point::new(c), mk_uuid(n), None)
}

fn extreme_case<K: Kern<D>, const D: usize>(cx: &mut Ctx, r: &mut Rng, idx: usize) {
    let g = GUARANTEES[idx % 3];
    // (1) lattice histories at extreme scales: the state oracles stay exact (homogeneous predicates)
    let s = [300, -300, 100, -100, 60, -60, 340, -340][idx % 8];
    cx.tr.s = s;
    cx.start_case(format!("C19 extreme D={D} k={} s={s} i={idx}", K::NAME));
    let hi = max_coord(D);
    let pts = random_points(r, D, D + 3, hi);
    let mut dt = op_empty::<K, D>(&mut cx.tr, 0, g);
    let mut alive = true;
    for p in &pts {
        let v = VIn::lattice(cx.fresh_uuid(), p.clone(), None);
        if !op_insert(&mut cx.tr, 0, &mut dt, &v, idx % 2 == 0) {
            alive = false;
            break;
        }
    }
    if alive {
        op_verdicts(&mut cx.tr, 0, &dt, 7);
        let input = cx.inputs(&pts, false);
        op_construct::<K, D>(&mut cx.tr, 1, Ctor::WithGuarantee, g, Opts::default_like(), &input);
    }
    cx.tr.s = 0;
    // (2) non-finite coordinates at every entry point of a valid triangulation
    cx.start_case(format!("C19 nonfinite D={D} k={} i={idx}", K::NAME));
    let base = gp_points(r, D, D + 3, hi);
    let input = cx.inputs(&base, false);
    let Some(mut dt) = op_construct::<K, D>(&mut cx.tr, 0, Ctor::WithGuarantee, g, Opts::default_like(), &input) else { return };
    for (bi, bad) in [f64::NAN, f64::INFINITY, f64::NEG_INFINITY].into_iter().enumerate() {
        for axis in [0, D - 1] {
            let mut c = [1.0f64; D];
            c[axis] = bad;
            let before = cx.tr.project(&dt);
            let n = cx.fresh_uuid();
            let detail = serde_json::json!({"bad": format!("{bad}"), "axis": axis});
            {
                let dtm = &mut dt;
                raw_call(&mut cx.tr, "insert(non-finite)", detail.clone(), || match dtm.insert(raw_vertex::<D>(c, n)) {
                    Ok(_) => "Ok".into(),
                    Err(e) => format!("Err:{}", variant(&e)),
                });
            }
            {
                let dtm = &mut dt;
                raw_call(&mut cx.tr, "insert_with_statistics(non-finite)", detail.clone(), || match dtm.insert_with_statistics(raw_vertex::<D>(c, n + 1)) {
                    Ok((delaunay::core::operations::InsertionOutcome::Inserted { .. }, _)) => "Ok".into(),
                    Ok(_) => "Skipped".into(),
                    Err(e) => format!("Err:{}", variant(&e)),
                });
            }
            {
                let ck = dt.tds().cell_keys().next().unwrap();
                let dtm = &mut dt;
                raw_call(&mut cx.tr, "flip_k1_insert(non-finite)", detail.clone(), || match dtm.flip_k1_insert(ck, raw_vertex::<D>(c, n + 2)) {
                    Ok(_) => "Ok".into(),
                    Err(e) => format!("Err:{}", variant(&e)),
                });
            }
            {
                let dtr = &dt;
                raw_call(&mut cx.tr, "locate(non-finite)", detail.clone(), || {
                    match delaunay::core::algorithms::locate::locate(dtr.tds(), &K::default(), &Point::new(c), None) {
                        Ok(x) => format!("Ok:{}", variant(&x)),
                        Err(e) => format!("Err:{}", variant(&e)),
                    }
                });
            }
            if bi == 0 && axis == 0 {
                let dtr = &dt;
                raw_call(&mut cx.tr, "hull queries(non-finite)", detail.clone(), || {
                    match delaunay::geometry::algorithms::convex_hull::ConvexHull::from_triangulation(dtr.as_triangulation()) {
                        Ok(h) => format!("{:?}", h.is_point_outside(&Point::new(c), dtr.as_triangulation()).map_err(|e| variant(&e))),
                        Err(e) => format!("Err:{}", variant(&e)),
                    }
                });
                // batch construction with one non-finite input
                let mut vs: Vec<Vertex<f64, VData, D>> = base.iter().enumerate().map(|(i, p)| VIn::lattice(70_000 + i as u64, p.clone(), None).vertex::<D>(0)).collect();
                vs.push(raw_vertex::<D>(c, 70_999));
                raw_call(&mut cx.tr, "construct(non-finite input)", detail.clone(), || match Dt::<K, D>::with_kernel(&K::default(), &vs) {
                    Ok(d) => {
                        if d.vertices().any(|(_, v)| v.point().coords().iter().any(|x| !x.is_finite())) { "Ok:contains-non-finite".into() } else { "Ok".into() }
                    }
                    Err(e) => format!("Err:{}", variant(&e)),
                });
            }
            // the triangulation must be exactly as before, and must not contain a non-finite coordinate
            let after = cx.tr.project(&dt);
            let same = before["verts"] == after["verts"] && before["cells"] == after["cells"];
            let has_bad = dt.vertices().any(|(_, v)| v.point().coords().iter().any(|x| !x.is_finite()));
            cx.tr.emit("RawCheck", 0, serde_json::json!({"what": "non-finite calls"}), serde_json::json!({"unchanged": same, "contains_non_finite": has_bad}), None, false);
        }
    }
    // (2b) the public building blocks of insertion with handles of any provenance: stale / foreign keys, facet
    //      indices out of range, a vertex key that is already in the cell (each call on a copy of the Tds)
    {
        use delaunay::core::algorithms::incremental_insertion::{extend_hull, fill_cavity, repair_neighbor_pointers, wire_cavity_neighbors};
        use delaunay::core::algorithms::locate::{extract_cavity_boundary, find_conflict_region};
        use delaunay::core::facet::FacetHandle;
        let (fk, _, fv) = crate::ops2::stale_and_foreign(&dt, &cx.tr, cx.seed + idx as u64);
        let live_c: Vec<CellKey> = dt.tds().cell_keys().take(2).collect();
        let live_v: Vec<VertexKey> = dt.tds().vertex_keys().collect();
        let mut cell_keys: Vec<CellKey> = live_c.clone();
        cell_keys.extend(fk);
        let mut vkeys: Vec<VertexKey> = vec![live_v[0], *live_v.last().unwrap()];
        vkeys.extend(fv);
        let q = Point::new([0.5f64; D]);
        for &ck in &cell_keys {
            let t = dt.tds().clone();
            raw_call(&mut cx.tr, "find_conflict_region(any start cell)", serde_json::json!({"live": dt.tds().contains_cell(ck)}), || {
                match find_conflict_region(&t, &K::default(), &q, ck) {
                    Ok(r) => format!("Ok:{}", r.len()),
                    Err(e) => format!("Err:{}", variant(&e)),
                }
            });
            let mut buf = delaunay::core::collections::CellKeyBuffer::new();
            buf.push(ck);
            raw_call(&mut cx.tr, "extract_cavity_boundary(any cells)", serde_json::json!({"live": dt.tds().contains_cell(ck)}), || {
                match extract_cavity_boundary(&t, &buf) {
                    Ok(r) => format!("Ok:{}", r.len()),
                    Err(e) => format!("Err:{}", variant(&e)),
                }
            });
            for fi in [0u8, D as u8, D as u8 + 1, 7, 255] {
                for &vk in &vkeys {
                    let mut t2 = dt.tds().clone();
                    let detail = serde_json::json!({"live_cell": dt.tds().contains_cell(ck), "facet": fi, "live_vertex": dt.tds().contains_vertex_key(vk)});
                    raw_call(&mut cx.tr, "fill_cavity(any facet handle, any vertex key)", detail.clone(), || {
                        match fill_cavity(&mut t2, vk, &[FacetHandle::new(ck, fi)]) {
                            Ok(r) => format!("Ok:{}", r.len()),
                            Err(e) => format!("Err:{}", variant(&e)),
                        }
                    });
                    let mut t3 = dt.tds().clone();
                    let mut nc = delaunay::core::collections::CellKeyBuffer::new();
                    nc.push(ck);
                    raw_call(&mut cx.tr, "wire_cavity_neighbors(any handles)", detail, || {
                        match wire_cavity_neighbors(&mut t3, &nc, [FacetHandle::new(ck, fi)], None) {
                            Ok(()) => "Ok".into(),
                            Err(e) => format!("Err:{}", variant(&e)),
                        }
                    });
                }
            }
        }
        for &vk in &vkeys {
            let mut t4 = dt.tds().clone();
            raw_call(&mut cx.tr, "extend_hull(any vertex key)", serde_json::json!({"live_vertex": dt.tds().contains_vertex_key(vk)}), || {
                match extend_hull(&mut t4, &K::default(), vk, &Point::new([1e3f64; D])) {
                    Ok(r) => format!("Ok:{}", r.len()),
                    Err(e) => format!("Err:{}", variant(&e)),
                }
            });
        }
        let mut t5 = dt.tds().clone();
        raw_call(&mut cx.tr, "repair_neighbor_pointers", serde_json::json!({}), || match repair_neighbor_pointers(&mut t5) {
            Ok(n) => format!("Ok:{n}"),
            Err(e) => format!("Err:{}", variant(&e)),
        });
    }
    // (3) mixed raw magnitudes in one construction / insertion history: only C19 is judged
    cx.start_case(format!("C19 magnitudes D={D} k={} i={idx}", K::NAME));
    let mags = [1e300, 1e-300, 1e150, 1.0, -1e300, 1e-150, 3.5e200, 7.0];
    let mut vs: Vec<Vertex<f64, VData, D>> = Vec::new();
    for i in 0..(D + 4) {
        let mut c = [0f64; D];
        for (j, x) in c.iter_mut().enumerate() {
            *x = mags[(i * 3 + j * 5 + idx) % mags.len()] * (1.0 + (i + j) as f64 * 0.125);
        }
        vs.push(raw_vertex::<D>(c, 80_000 + i as u64));
    }
    raw_call(&mut cx.tr, "construct(mixed magnitudes)", serde_json::json!({}), || match Dt::<K, D>::with_kernel(&K::default(), &vs) {
        Ok(d) => format!("Ok:{}", d.number_of_cells()),
        Err(e) => format!("Err:{}", variant(&e)),
    });
    // every preprocessing option on magnitudes whose differences / squared distances overflow: the mixed set,
    // and an ordinary cluster with far outliers (one of them the lexicographically smallest point)
    {
        let far = [2f64.powi(600), 1e300, 1e200, 2f64.powi(520)][idx % 4];
        let mut cluster: Vec<Vertex<f64, VData, D>> = Vec::new();
        for i in 0..(D + 2) {
            let mut c = [0f64; D];
            for (j, x) in c.iter_mut().enumerate() {
                *x = (((i * 7 + j * 3 + idx) % 5) as f64) + if i == j { 4.0 } else { 0.0 };
            }
            cluster.push(raw_vertex::<D>(c, 81_000 + i as u64));
        }
        let mut lo = [1.0f64; D];
        lo[0] = -far;
        let mut hi_p = [2.0f64; D];
        hi_p[D - 1] = far;
        let sets: Vec<(&str, Vec<Vertex<f64, VData, D>>)> = vec![
            ("mixed", vs.clone()),
            ("cluster+low outlier", cluster.iter().copied().chain([raw_vertex::<D>(lo, 81_100)]).collect()),
            ("cluster+two outliers", cluster.iter().copied().chain([raw_vertex::<D>(lo, 81_100), raw_vertex::<D>(hi_p, 81_101)]).collect()),
            ("outliers first", [raw_vertex::<D>(hi_p, 81_101), raw_vertex::<D>(lo, 81_100)].into_iter().chain(cluster.iter().copied()).collect()),
        ];
        for (sname, set) in &sets {
            for order in 0..4usize {
                for simplex in 0..2usize {
                    let dedup = (order + simplex + idx) % 3;
                    let o = Opts { order, dedup, simplex, retry: [0, 3][(order + idx) % 2] };
                    let detail = serde_json::json!({"set": sname, "opts": o.name(), "far": format!("{far:e}")});
                    raw_call(&mut cx.tr, "construct(options, overflowing magnitudes)", detail, || {
                        match Dt::<K, D>::with_topology_guarantee_and_options(&K::default(), set, g, o.build(0)) {
                            Ok(d) => format!("Ok:{}", d.number_of_cells()),
                            Err(e) => format!("Err:{}", variant(&e)),
                        }
                    });
                }
            }
        }
    }
    let mut dt2 = Dt::<K, D>::with_empty_kernel_and_topology_guarantee(K::default(), g);
    for v in &vs {
        let vv = *v;
        let d2 = &mut dt2;
        raw_call(&mut cx.tr, "insert(mixed magnitudes)", serde_json::json!({}), || match d2.insert(vv) {
            Ok(_) => "Ok".into(),
            Err(e) => format!("Err:{}", variant(&e)),
        });
    }
    {
        let d2 = &mut dt2;
        raw_call(&mut cx.tr, "repair(mixed magnitudes)", serde_json::json!({}), || match d2.repair_delaunay_with_flips() {
            Ok(_) => "Ok".into(),
            Err(e) => format!("Err:{}", variant(&e)),
        });
        let d3 = &dt2;
        raw_call(&mut cx.tr, "validate(mixed magnitudes)", serde_json::json!({}), || format!("{}", d3.validate().is_ok()));
    }
}

pub fn drive_extreme(cx: &mut Ctx) {
    let per_dim = if cx.thorough { 48 } else { 8 };
    for d in 2..=5usize {
        for i in 0..per_dim {
            let mut r = Rng::new(cx.seed * 9_000_049 + (d * 100_000 + i) as u64);
            if !cx.mine() {
                continue;
            }
            let k = (i / 2) % 2;
            dispatch!(d, k, extreme_case(cx, &mut r, i));
        }
    }
}

// ---------------------------------------------------------------------------------------
// C08 mechanism binding: every flip the repair loops apply, recorded through the flip-trace hook
// ---------------------------------------------------------------------------------------
fn cells_as_ids<K: Kern<D>, const D: usize>(tr: &mut Tracer, dt: &Dt<K, D>) -> Vec<Vec<i64>> {
    let mut cs: Vec<Vec<i64>> = dt
        .cells()
        .map(|(_, c)| {
            let mut v: Vec<i64> = c.vertices().iter().map(|vk| tr.vkey_id(dt.tds(), *vk)).collect();
            v.sort_unstable();
            v
        })
        .collect();
    cs.sort();
    cs
}

fn repairtrace_case<K: Kern<D>, const D: usize>(cx: &mut Ctx, r: &mut Rng, idx: usize) {
    use delaunay::core::algorithms::flips::verif_flip_trace;
    let g = GUARANTEES[idx % 3];
    cx.tr.reset_ids();
    cx.tr.tag = format!("C08 repairtrace D={D} k={} i={idx}", K::NAME);
    let hi = max_coord(D);
    let n = D + 3 + r.below(if D == 2 { 5 } else { 3 });
    let pts = if idx % 4 == 3 { random_points(r, D, n, hi) } else { gp_points(r, D, n.min(9), hi) };
    if pts.len() < D + 2 {
        return;
    }
    // non-Delaunay start: incremental insertion with repair disabled, or flips on a constructed one
    let s = cx.tr.s;
    let mut dt = Dt::<K, D>::with_empty_kernel_and_topology_guarantee(K::default(), g);
    dt.set_delaunay_repair_policy(DelaunayRepairPolicy::Never);
    for p in &pts {
        let v = VIn::lattice(cx.fresh_uuid(), p.clone(), None);
        if dt.insert(v.vertex::<D>(s)).is_err() {
            return;
        }
    }
    // a few geometry-preserving flips away from Delaunay
    for _ in 0..(idx % 4) {
        let cks: Vec<CellKey> = dt.tds().cell_keys().collect();
        let ck = *r.pick(&cks);
        let i = r.below(D + 1) as u8;
        let mut probe = dt.clone();
        if probe.flip_k2(delaunay::core::facet::FacetHandle::new(ck, i)).is_ok() && probe.as_triangulation().is_valid().is_ok() {
            let _ = dt.flip_k2(delaunay::core::facet::FacetHandle::new(ck, i));
        }
    }
    if dt.number_of_cells() == 0 || dt.vertices().any(|(_, v)| cx.tr.coord_proj(v.point().coords()).1) {
        return; // perturbed vertices: exact model geometry would not apply
    }
    // vertex ids 1..n in a fixed order, positions by id
    let mut vs: Vec<(i64, Vec<i64>)> = dt.vertices().map(|(_, v)| (cx.tr.vid(v.uuid()), cx.tr.coord_proj(v.point().coords()).0)).collect();
    vs.sort();
    let pts_by_id: Vec<Vec<i64>> = vs.iter().map(|x| x.1.clone()).collect();
    let pre = cells_as_ids(&mut cx.tr, &dt);
    let adv = idx % 2 == 1;
    verif_flip_trace::start();
    let g2 = cx.tr.guard("repair(traced)", || {
        if adv {
            dt.repair_delaunay_with_flips_advanced(delaunay::core::delaunay_triangulation::DelaunayRepairHeuristicConfig::default())
                .map(|o| (o.stats.flips_performed, o.used_heuristic()))
                .map_err(|e| variant(&e))
        } else {
            dt.repair_delaunay_with_flips().map(|s| (s.flips_performed, false)).map_err(|e| variant(&e))
        }
    });
    let steps_raw = verif_flip_trace::take();
    match g2 {
        Guarded::Done(res) => {
            if matches!(res, Ok((_, true))) {
                return; // heuristic rebuild replaced the triangulation: not a flip path
            }
            let steps: Vec<serde_json::Value> = steps_raw
                .iter()
                .map(|(k, a, b)| {
                    let aa: Vec<i64> = a.iter().map(|u| cx.tr.vid(*u)).collect();
                    let bb: Vec<i64> = b.iter().map(|u| cx.tr.vid(*u)).collect();
                    serde_json::json!({"k": k, "A": aa, "B": bb})
                })
                .collect();
            let post = cells_as_ids(&mut cx.tr, &dt);
            let (kind, flips) = match &res {
                Ok((f, _)) => ("Ok", *f as i64),
                Err(_) => ("Err", -1),
            };
            // the record itself (flat, as Trace_FlipRepair expects it) is written as its own line
            let rec = serde_json::json!({"ev": "RepairTraceRec", "tag": cx.tr.tag, "D": D, "pts": pts_by_id, "pre": pre, "steps": steps, "post": post,
                                         "kind": kind, "flips": flips, "adv": adv, "panic": false, "timeout": false});
            cx.tr.append_raw_cases(&rec.to_string());
        }
        Guarded::Panicked(msg) => {
            let rec = serde_json::json!({"ev": "RepairTraceRec", "tag": cx.tr.tag, "D": D, "pts": pts_by_id, "pre": pre, "steps": [], "post": pre,
                                         "kind": "Panic", "msg": msg, "flips": -1, "adv": adv, "panic": true, "timeout": false});
            cx.tr.append_raw_cases(&rec.to_string());
        }
    }
}

pub fn drive_repairtrace(cx: &mut Ctx) {
    let per_dim = if cx.thorough { 400 } else { 60 };
    for d in 2..=3usize {
        for i in 0..per_dim {
            let mut r = Rng::new(cx.seed * 1_300_021 + (d * 100_000 + i) as u64);
            if !cx.mine() {
                continue;
            }
            let k = (i / 2) % 2;
            match (d, k) {
                (2, 0) => repairtrace_case::<FastKernel<f64>, 2>(cx, &mut r, i),
                (2, _) => repairtrace_case::<RobustKernel<f64>, 2>(cx, &mut r, i),
                (_, 0) => repairtrace_case::<FastKernel<f64>, 3>(cx, &mut r, i),
                (_, _) => repairtrace_case::<RobustKernel<f64>, 3>(cx, &mut r, i),
            }
        }
    }
}

// ---------------------------------------------------------------------------------------
// oracle self-test: the seeded C07 scenario (4-D, a k=3 inverse whose inserted simplex already exists)
// ---------------------------------------------------------------------------------------
pub fn drive_c07demo(cx: &mut Ctx) {
    type K4 = FastKernel<f64>;
    const POINTS: [[f64; 4]; 9] = [
        [8.283892529250757, 7.997376657214453, 6.679482909942198, 9.777315882311102],
        [5.213092184734268, 4.389369447174913, 2.67864123689045, 6.599429690156454],
        [4.091876442597795, 5.98425075521453, 9.953799853794061, 0.6274303274576143],
        [3.138931189890639, 0.07397924353683916, 6.034157619568314, 4.741118998890945],
        [4.724526974544975, 0.7879127489386939, 6.198532498325779, 8.857955032862781],
        [5.126707983247708, 4.189710929826873, 7.213767570143684, 4.8327188258342],
        [3.5428408129931057, 7.169996155313729, 8.169569578633972, 5.17528068595672],
        [2.4024441469006863, 7.35309285408121, 3.051446319730733, 5.164195866599974],
        [9.34686036292794, 0.5738467821524773, 6.128133996538239, 2.6984212685170137],
    ];
    let ops: Vec<Vec<usize>> = vec![
        vec![2, 8, 7, 5], vec![0, 6, 5], vec![3, 1, 5], vec![4, 2, 7], vec![3, 6, 5], vec![8, 4, 7],
        vec![5, 8, 7], vec![8, 2, 5], vec![2, 4, 7], vec![3, 5, 4, 7], vec![6, 3, 5, 4], vec![6, 0, 5],
    ];
    cx.start_case("C07 seeded-scenario self-test D=4".to_string());
    let vs: Vec<Vertex<f64, VData, 4>> = POINTS.iter().enumerate().map(|(i, p)| Vertex::new_with_uuid(Point::new(*p), mk_uuid(900 + i as u64), Some(i as i32))).collect();
    let Ok(mut dt) = Dt::<K4, 4>::with_kernel(&K4::default(), &vs) else { return };
    let post = cx.tr.project(&dt);
    cx.tr.emit("Adopt", 0, serde_json::json!({"D": 4, "why": "C07 scenario"}), serde_json::json!({}), Some(post), false);
    let key_of = |dt: &Dt<K4, 4>, i: usize| dt.vertices().find(|(_, v)| v.uuid() == mk_uuid(900 + i as u64)).map(|(k, _)| k).unwrap();
    for op in &ops {
        let want: Vec<VertexKey> = op.iter().map(|&i| key_of(&dt, i)).collect();
        let mut found: Option<FlipArg> = None;
        for (ck, c) in dt.cells() {
            let vsx = c.vertices();
            if want.iter().all(|k| vsx.contains(k)) {
                let omit: Vec<u8> = vsx.iter().enumerate().filter(|(_, v)| !want.contains(v)).map(|(i, _)| i as u8).collect();
                found = Some(if op.len() == 4 { FlipArg::K2(ck, omit[0]) } else { FlipArg::K3(ck, omit[0], omit[1]) });
                break;
            }
        }
        let Some(fa) = found else { return };
        let out = op_flip(&mut cx.tr, 0, &mut dt, &fa, 0, "scenario");
        if !out.ok {
            return;
        }
    }
    let fa = FlipArg::K3Inv(key_of(&dt, 2), key_of(&dt, 0), key_of(&dt, 5));
    op_flip(&mut cx.tr, 0, &mut dt, &fa, 0, "scenario-final");
}

// ---------------------------------------------------------------------------------------
// C03: every failpoint reachable under every mutating operation, forced one at a time
// ---------------------------------------------------------------------------------------
use delaunay::core::util::verif_failpoints as fp;

#[derive(Clone, Debug)]
enum MutOp {
    Insert(VIn, bool),
    Remove(uuid::Uuid),
    Flip(FlipArg),
    Repair(bool),
}

fn run_mut_op<K: Kern<D>, const D: usize>(cx: &mut Ctx, obj: usize, dt: &mut Dt<K, D>, op: &MutOp) -> bool {
    match op {
        MutOp::Insert(v, st) => op_insert(&mut cx.tr, obj, dt, v, *st),
        MutOp::Remove(u) => op_remove(&mut cx.tr, obj, dt, *u),
        MutOp::Flip(fa) => !op_flip(&mut cx.tr, obj, dt, fa, 0, "failpoint").panicked,
        MutOp::Repair(adv) => op_repair(&mut cx.tr, obj, dt, *adv, None, 7),
    }
}

/// run `op` silently on a clone and return the failpoint sites it passes (in order)
fn discover<K: Kern<D>, const D: usize>(dt: &Dt<K, D>, op: &MutOp, s: i32) -> Vec<&'static str> {
    let mut c = dt.clone();
    fp::start_log();
    let _ = std::panic::catch_unwind(std::panic::AssertUnwindSafe(|| match op {
        MutOp::Insert(v, st) => {
            if *st {
                let _ = c.insert_with_statistics(v.vertex::<D>(s));
            } else {
                let _ = c.insert(v.vertex::<D>(s));
            }
        }
        MutOp::Remove(u) => {
            if let Some((_, v)) = find_vertex(&c, *u) {
                let _ = c.remove_vertex(&v);
            }
        }
        MutOp::Flip(fa) => {
            let _ = match fa {
                FlipArg::K1Insert(ck, v) => c.flip_k1_insert(*ck, v.vertex::<D>(s)),
                FlipArg::K1Remove(vk) => c.flip_k1_remove(*vk),
                FlipArg::K2(ck, i) => c.flip_k2(delaunay::core::facet::FacetHandle::new(*ck, *i)),
                FlipArg::K3(ck, i, j) => c.flip_k3(delaunay::core::algorithms::flips::RidgeHandle::new(*ck, *i, *j)),
                FlipArg::K2Inv(a, b) => c.flip_k2_inverse_from_edge(delaunay::core::edge::EdgeKey::new(*a, *b)),
                FlipArg::K3Inv(a, b, e) => c.flip_k3_inverse_from_triangle(delaunay::core::algorithms::flips::TriangleHandle::new(*a, *b, *e)),
            };
        }
        MutOp::Repair(adv) => {
            if *adv {
                let _ = c.repair_delaunay_with_flips_advanced(delaunay::core::delaunay_triangulation::DelaunayRepairHeuristicConfig::default());
            } else {
                let _ = c.repair_delaunay_with_flips();
            }
        }
    }));
    fp::take_log()
}

fn failpoint_case<K: Kern<D>, const D: usize>(cx: &mut Ctx, r: &mut Rng, idx: usize) {
    let g = GUARANTEES[idx % 3];
    let hi = max_coord(D);
    let n = D + 3 + r.below(3);
    let pts = if idx % 3 == 0 { random_points(r, D, n, hi) } else { gp_points(r, D, n.min(8), hi) };
    if pts.len() < D + 2 {
        return;
    }
    // the operations to torture on this base
    let mut ops: Vec<(String, MutOp, usize)> = Vec::new(); // (name, op, prep: 0 none / 1 flip away first / 2 repair off)
    {
        // an interior-ish and an exterior point for insertion
        let mut q: Vec<i64> = vec![0; D];
        for p in &pts {
            for j in 0..D {
                q[j] += p[j];
            }
        }
        for x in q.iter_mut() {
            *x /= pts.len() as i64;
        }
        if !pts.contains(&q) {
            ops.push(("insert-interior".into(), MutOp::Insert(VIn::lattice(cx.fresh_uuid(), q.clone(), Some(1)), false), 0));
            ops.push(("insert_stats-interior".into(), MutOp::Insert(VIn::lattice(cx.fresh_uuid(), q, Some(1)), true), 0));
        }
        let ext: Vec<i64> = (0..D).map(|j| if j == 0 { hi + 2 } else { r.range(0, hi) }).collect();
        ops.push(("insert-exterior".into(), MutOp::Insert(VIn::lattice(cx.fresh_uuid(), ext, Some(2)), idx % 2 == 0), 0));
        ops.push(("repair".into(), MutOp::Repair(false), 1));
        ops.push(("repair-advanced".into(), MutOp::Repair(true), 1));
    }
    for (opname, op0, prep) in ops {
        // fresh base for every operation
        cx.start_case(format!("C03 failpoints D={D} k={} op={opname} i={idx}", K::NAME));
        let input = cx.inputs(&pts, true);
        let Some(mut base) = op_construct::<K, D>(&mut cx.tr, 0, Ctor::WithGuarantee, g, Opts::default_like(), &input) else { return };
        if idx % 4 == 1 {
            op_set_policy(&mut cx.tr, 0, &mut base, PolicySet::Repair(DelaunayRepairPolicy::Never));
        }
        if idx % 4 == 2 {
            op_set_policy(&mut cx.tr, 0, &mut base, PolicySet::Check(delaunay::core::delaunay_triangulation::DelaunayCheckPolicy::EveryN(std::num::NonZeroUsize::new(1).unwrap())));
        }
        if prep == 1 {
            // flip away from Delaunay so that the repair has work to do
            let cks: Vec<CellKey> = base.tds().cell_keys().collect();
            'f: for ck in cks {
                for i in 0..=(D as u8) {
                    let mut probe = base.clone();
                    if probe.flip_k2(delaunay::core::facet::FacetHandle::new(ck, i)).is_ok() && probe.as_triangulation().is_valid().is_ok() {
                        let out = op_flip(&mut cx.tr, 0, &mut base, &FlipArg::K2(ck, i), 0, "prep");
                        if out.ok {
                            break 'f;
                        }
                    }
                }
            }
        }
        torture(cx, &mut base, &op0, &opname);
    }
    // removal and flips need keys of the concrete base: build once more and derive ops from it
    cx.start_case(format!("C03 failpoints D={D} k={} op=remove/flips i={idx}", K::NAME));
    let input = cx.inputs(&pts, true);
    let Some(mut base) = op_construct::<K, D>(&mut cx.tr, 0, Ctor::WithGuarantee, g, Opts::default_like(), &input) else { return };
    let us: Vec<uuid::Uuid> = base.vertices().map(|(_, v)| v.uuid()).collect();
    for u in us.iter().take(3) {
        torture(cx, &mut base, &MutOp::Remove(*u), "remove");
    }
    let cks: Vec<CellKey> = base.tds().cell_keys().collect();
    let mut flips: Vec<FlipArg> = Vec::new();
    for ck in cks.iter().take(4) {
        for i in 0..=(D as u8) {
            flips.push(FlipArg::K2(*ck, i));
        }
        if D >= 3 {
            flips.push(FlipArg::K3(*ck, 0, 1));
            flips.push(FlipArg::K3(*ck, 1, 2));
        }
        let c = base.tds().get_cell(*ck).unwrap();
        let mut m = vec![0i64; D];
        for vk in c.vertices() {
            let v = base.tds().get_vertex_by_key(*vk).unwrap();
            let (vm, _, _, _) = cx.tr.coord_proj(v.point().coords());
            for t in 0..D {
                m[t] += vm[t];
            }
        }
        for x in m.iter_mut() {
            *x /= D as i64 + 1;
        }
        flips.push(FlipArg::K1Insert(*ck, VIn::lattice(cx.fresh_uuid(), m, Some(3))));
    }
    if let Some(vk) = base.tds().vertex_keys().next() {
        flips.push(FlipArg::K1Remove(vk));
    }
    r.shuffle(&mut flips);
    for fa in flips.into_iter().take(if cx.thorough { 14 } else { 6 }) {
        if base.tds().cell_keys().count() == 0 {
            break;
        }
        torture(cx, &mut base, &MutOp::Flip(fa), "flip");
    }
}

/// force every failpoint `op` passes, one at a time (1st..3rd hit), on `dt`; a forced failure must leave
/// `dt` exactly as it was (judged by the trace spec on each call), so the next site is forced on the
/// same object. At the end the unforced operation runs on `dt` and on a twin cloned before the first
/// forced failure: C03 "later operations behave as if the failed call had never been made".
fn torture<K: Kern<D>, const D: usize>(cx: &mut Ctx, dt: &mut Dt<K, D>, op: &MutOp, opname: &str) {
    let s = cx.tr.s;
    let sites = discover(dt, op, s);
    let mut uniq: Vec<&'static str> = Vec::new();
    for x in &sites {
        if !uniq.contains(x) {
            uniq.push(x);
        }
    }
    let base_tag = cx.tr.tag.clone();
    let mut twin = crate::ops2::op_clone(&mut cx.tr, 0, 1, dt);
    for site in uniq {
        let count = sites.iter().filter(|x| **x == site).count();
        for k in 1..=count.min(3) {
            cx.tr.tag = format!("{base_tag} fp={site}#{k} ({opname})");
            let before = (cells_as_ids(&mut cx.tr, dt), dt.number_of_vertices());
            fp::arm(site, k);
            let alive = run_mut_op(cx, 0, dt, op);
            let _fired = fp::disarm();
            cx.tr.tag = base_tag.clone();
            if !alive {
                return;
            }
            if (cells_as_ids(&mut cx.tr, dt), dt.number_of_vertices()) != before {
                // the operation went through in spite of the forced failure (a fallback path absorbed
                // it): it is applied now; nothing more to force on this state
                return;
            }
            crate::ops2::op_compare(&mut cx.tr, 0, 1, "after forced failure");
        }
    }
    cx.tr.tag = format!("{base_tag} unforced ({opname})");
    let a = run_mut_op(cx, 0, dt, op);
    let b = run_mut_op(cx, 1, &mut twin, op);
    if a && b {
        crate::ops2::op_compare(&mut cx.tr, 0, 1, "after the unforced operation on object and twin");
    }
    cx.tr.tag = base_tag;
}

pub fn drive_failpoints(cx: &mut Ctx) {
    let per_dim = if cx.thorough { 40 } else { 8 };
    for d in 2..=4usize {
        for i in 0..per_dim {
            let mut r = Rng::new(cx.seed * 1_700_009 + (d * 100_000 + i) as u64);
            if !cx.mine() {
                continue;
            }
            let k = (i / 2) % 2;
            dispatch!(d, k, failpoint_case(cx, &mut r, i));
        }
    }
}

// ---------------------------------------------------------------------------------------
// C04 / C08: long silent flip walks (only the walked state enters the trace, through `Adopt`)
// ---------------------------------------------------------------------------------------
/// apply up to `want` geometry-preserving k=2 / k=3 flips (checked with the library's own Level 3 on a
/// clone - steering only); returns the number applied
fn silent_walk<K: Kern<D>, const D: usize>(dt: &mut Dt<K, D>, r: &mut Rng, want: usize) -> usize {
    let mut okc = 0;
    let mut tries = 0;
    while okc < want && tries < 12 * want {
        tries += 1;
        let cks: Vec<CellKey> = dt.tds().cell_keys().collect();
        if cks.is_empty() {
            break;
        }
        let ck = *r.pick(&cks);
        let use_k3 = D >= 3 && r.chance(1, 2);
        let (i, j) = (r.below(D + 1) as u8, r.below(D + 1) as u8);
        if use_k3 && i == j {
            continue;
        }
        let mut probe = dt.clone();
        let ok = if use_k3 {
            probe.flip_k3(delaunay::core::algorithms::flips::RidgeHandle::new(ck, i, j)).is_ok()
        } else {
            probe.flip_k2(delaunay::core::facet::FacetHandle::new(ck, i)).is_ok()
        };
        if ok && probe.as_triangulation().is_valid().is_ok() {
            *dt = probe;
            okc += 1;
        }
    }
    okc
}

fn walk_case<K: Kern<D>, const D: usize>(cx: &mut Ctx, r: &mut Rng, idx: usize, for_repair: bool) {
    let g = GUARANTEES[idx % 3];
    let hi = max_coord(D);
    cx.start_case(format!("{} walk D={D} k={} i={idx}", if for_repair { "C08" } else { "C04" }, K::NAME));
    let n = match D {
        2 => 8 + r.below(5),
        3 => 8 + r.below(5),
        _ => D + 3 + r.below(3),
    };
    let pts = match idx % 4 {
        0 => degenerate_points(r, D, n, hi),
        1 => random_points(r, D, n, hi),
        2 => {
            // sub-grid: many coplanar / cospherical subsets
            let g3 = grid(D, 3);
            let mut ix: Vec<usize> = (0..g3.len()).collect();
            r.shuffle(&mut ix);
            ix.into_iter().take(n.min(g3.len())).map(|i| g3[i].clone()).collect()
        }
        _ => gp_points(r, D, n.min(9), hi),
    };
    if pts.len() < D + 2 {
        return;
    }
    let s = cx.tr.s;
    let input = cx.inputs(&pts, false);
    let vs: Vec<_> = input.iter().map(|v| v.vertex::<D>(s)).collect();
    let Ok(mut dt) = Dt::<K, D>::with_topology_guarantee(&K::default(), &vs, g) else { return };
    if dt.vertices().any(|(_, v)| cx.tr.coord_proj(v.point().coords()).1) {
        return; // perturbed vertices: keep the exact oracle fully decisive
    }
    let want = if for_repair { 10 + r.below(35) } else { 1 + r.below(8) };
    let done = silent_walk(&mut dt, r, want);
    if done == 0 {
        return;
    }
    let post = cx.tr.project(&dt);
    cx.tr.emit("Adopt", 0, serde_json::json!({"D": D, "why": format!("state after {done} silent flips")}), serde_json::json!({}), Some(post), false);
    op_verdicts(&mut cx.tr, 0, &dt, 8);
    // "skipped violation + 1": the library's own brute-force search sees a violation that its flip verifier skips
    // (the degenerate-flip class). From such a state every further legal flip is applied on a copy and judged: a
    // verifier that stops scanning at a skipped facet would miss the ordinary violation the extra flip creates.
    if !for_repair && D == 3 {
        // a flipped-away state that the flip verifier ACCEPTS: either the walk came back to a Delaunay triangulation
        // or a violation is being skipped (the library's brute-force search skips the same class, so it cannot tell)
        let skipped = dt.is_valid().is_ok();
        if skipped {
            let cks: Vec<CellKey> = dt.tds().cell_keys().collect();
            let mut tried = 0;
            'ext: for ck in cks {
                for i in 0..=(D as u8) {
                    if tried >= (if cx.thorough { 40 } else { 16 }) {
                        break 'ext;
                    }
                    let mut probe = dt.clone();
                    if probe.flip_k2(delaunay::core::facet::FacetHandle::new(ck, i)).is_ok() && probe.as_triangulation().is_valid().is_ok() {
                        tried += 1;
                        let post = cx.tr.project(&probe);
                        cx.tr.emit("Adopt", 1, serde_json::json!({"D": D, "why": "one more legal flip from a state with a skipped violation"}), serde_json::json!({}), Some(post), false);
                        op_verdicts(&mut cx.tr, 1, &probe, 8);
                    }
                }
            }
        }
    }
    if for_repair {
        let mut c = op_clone(&mut cx.tr, 0, 1, &dt);
        if !op_repair(&mut cx.tr, 0, &mut dt, false, None, 8) {
            return;
        }
        op_verdicts(&mut cx.tr, 0, &dt, 8);
        op_repair(&mut cx.tr, 1, &mut c, true, None, 8);
    }
}

pub fn drive_verdictwalk(cx: &mut Ctx) {
    // exhaustive two-flip neighbourhoods of tiny degenerate point sets
    let trees = if cx.thorough { 160 } else { 36 };
    for d in 2..=3usize {
        for i in 0..trees {
            let mut r = Rng::new(cx.seed * 2_900_017 + (d * 100_000 + i) as u64);
            if !cx.mine() {
                continue;
            }
            match (d, i % 2) {
                (2, 0) => verdict_tree::<FastKernel<f64>, 2>(cx, &mut r, i),
                (2, _) => verdict_tree::<RobustKernel<f64>, 2>(cx, &mut r, i),
                (_, 0) => verdict_tree::<FastKernel<f64>, 3>(cx, &mut r, i),
                (_, _) => verdict_tree::<RobustKernel<f64>, 3>(cx, &mut r, i),
            }
        }
    }
    let per_dim = if cx.thorough { 800 } else { 150 };
    for d in 2..=4usize {
        let n = if d == 3 { per_dim } else { per_dim / 3 };
        for i in 0..n {
            let mut r = Rng::new(cx.seed * 2_100_011 + (d * 100_000 + i) as u64);
            if !cx.mine() {
                continue;
            }
            let k = (i / 4) % 2;
            match (d, k) {
                (2, 0) => walk_case::<FastKernel<f64>, 2>(cx, &mut r, i, false),
                (2, _) => walk_case::<RobustKernel<f64>, 2>(cx, &mut r, i, false),
                (3, 0) => walk_case::<FastKernel<f64>, 3>(cx, &mut r, i, false),
                (3, _) => walk_case::<RobustKernel<f64>, 3>(cx, &mut r, i, false),
                (_, 0) => walk_case::<FastKernel<f64>, 4>(cx, &mut r, i, false),
                (_, _) => walk_case::<RobustKernel<f64>, 4>(cx, &mut r, i, false),
            }
        }
    }
}

pub fn drive_repairwalk(cx: &mut Ctx) {
    let per_dim = if cx.thorough { 900 } else { 200 };
    for d in 2..=4usize {
        let n = if d == 3 { per_dim } else { per_dim / 4 };
        for i in 0..n {
            let mut r = Rng::new(cx.seed * 2_300_017 + (d * 100_000 + i) as u64);
            if !cx.mine() {
                continue;
            }
            let k = (i / 4) % 2;
            match (d, k) {
                (2, 0) => walk_case::<FastKernel<f64>, 2>(cx, &mut r, i, true),
                (2, _) => walk_case::<RobustKernel<f64>, 2>(cx, &mut r, i, true),
                (3, 0) => walk_case::<FastKernel<f64>, 3>(cx, &mut r, i, true),
                (3, _) => walk_case::<RobustKernel<f64>, 3>(cx, &mut r, i, true),
                (_, 0) => walk_case::<FastKernel<f64>, 4>(cx, &mut r, i, true),
                (_, _) => walk_case::<RobustKernel<f64>, 4>(cx, &mut r, i, true),
            }
        }
    }
}

/// C04: EVERY triangulation within two legal flips of the constructed one, for tiny point sets on the
/// {0,1,2}^D grid (full of coplanar / cospherical subsets); Verdicts on each
fn verdict_tree<K: Kern<D>, const D: usize>(cx: &mut Ctx, r: &mut Rng, idx: usize) {
    let g = GUARANTEES[idx % 3];
    let g3 = grid(D, 3);
    let mut ix: Vec<usize> = (0..g3.len()).collect();
    r.shuffle(&mut ix);
    let n = D + 2 + r.below(3);
    let mut pts: Vec<Vec<i64>> = ix.into_iter().take(n).map(|i| g3[i].clone()).collect();
    if D == 3 && idx == 0 {
        // a fixed configuration in which a violating facet with a degenerate flip coexists with genuinely
        // flippable violations two flips away from the Delaunay triangulation
        pts = vec![vec![2, 1, 0], vec![0, 0, 2], vec![2, 0, 1], vec![0, 1, 1], vec![2, 2, 1], vec![1, 0, 1]];
    }
    cx.start_case(format!("C04 tree D={D} k={} i={idx}", K::NAME));
    let s = cx.tr.s;
    let input = cx.inputs(&pts, false);
    let vs: Vec<_> = input.iter().map(|v| v.vertex::<D>(s)).collect();
    let Ok(base) = Dt::<K, D>::with_topology_guarantee(&K::default(), &vs, g) else { return };
    if base.vertices().any(|(_, v)| cx.tr.coord_proj(v.point().coords()).1) {
        return;
    }
    let mut seen: Vec<Vec<Vec<i64>>> = Vec::new();
    let mut frontier: Vec<Dt<K, D>> = vec![base];
    let cap = if cx.thorough { 400 } else { 120 };
    // depth 3 only below ACCEPTED depth-2 states: a flipped-away state the verifier accepts is back at a Delaunay
    // triangulation or hides a skipped violation; one more flip from there must be judged correctly too
    for depth in 0..=3 {
        let mut next: Vec<Dt<K, D>> = Vec::new();
        for dt in &frontier {
            let key = cells_as_ids(&mut cx.tr, dt);
            if seen.contains(&key) {
                continue;
            }
            seen.push(key);
            if seen.len() > cap {
                return;
            }
            let post = cx.tr.project(dt);
            cx.tr.emit("Adopt", 0, serde_json::json!({"D": D, "why": format!("{depth} legal flips from the constructed triangulation")}), serde_json::json!({}), Some(post), false);
            if !op_verdicts(&mut cx.tr, 0, dt, 8) {
                return;
            }
            if depth == 3 || (depth == 2 && dt.is_valid().is_err()) {
                continue;
            }
            let cks: Vec<CellKey> = dt.tds().cell_keys().collect();
            for ck in cks {
                for i in 0..=(D as u8) {
                    let mut p = dt.clone();
                    if p.flip_k2(delaunay::core::facet::FacetHandle::new(ck, i)).is_ok() && p.as_triangulation().is_valid().is_ok() {
                        next.push(p);
                    }
                    if D >= 3 {
                        for j in (i + 1)..=(D as u8) {
                            let mut p = dt.clone();
                            if p.flip_k3(delaunay::core::algorithms::flips::RidgeHandle::new(ck, i, j)).is_ok() && p.as_triangulation().is_valid().is_ok() {
                                next.push(p);
                            }
                        }
                    }
                }
            }
        }
        frontier = next;
    }
}
