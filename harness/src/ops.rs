//! One function per public call of the library: run it (guarded), log one event.

use crate::proj::*;
use delaunay::core::algorithms::flips::{RidgeHandle, TriangleHandle};
use delaunay::core::delaunay_triangulation::{
    ConstructionOptions, DedupPolicy, DelaunayCheckPolicy, DelaunayRepairHeuristicConfig,
    DelaunayRepairPolicy, InitialSimplexStrategy, InsertionOrderStrategy, RetryPolicy,
};
use delaunay::core::edge::EdgeKey;
use delaunay::core::facet::FacetHandle;
use delaunay::core::operations::InsertionOutcome;
use delaunay::core::triangulation::{TopologyGuarantee, ValidationPolicy};
use delaunay::core::triangulation_data_structure::{CellKey, VertexKey};
use delaunay::core::util::delaunay_validation::find_delaunay_violations;
use delaunay::core::vertex::Vertex;
use delaunay::geometry::traits::coordinate::Coordinate;
use delaunay::triangulation::flips::BistellarFlips;
use serde_json::{Value, json};
use std::num::NonZeroUsize;
use uuid::Uuid;

#[derive(Clone, Debug)]
pub struct VIn {
    pub uuid: Uuid,
    pub m: Vec<i64>,
    /// off-lattice displacement added to coordinate 0 (0.0 = on the lattice)
    pub off: f64,
    /// "lattice" | "near" (within the duplicate tolerance of the home) | "far"
    pub cls: &'static str,
    pub data: Option<VData>,
}

impl VIn {
    pub fn lattice(n: u64, m: Vec<i64>, data: Option<VData>) -> Self {
        VIn { uuid: mk_uuid(n), m, off: 0.0, cls: "lattice", data }
    }
    pub fn vertex<const D: usize>(&self, s: i32) -> Vertex<f64, VData, D> {
        mk_vertex::<D>(self.uuid, &self.m, s, self.off, self.data)
    }
    pub fn args(&self, tr: &mut Tracer) -> Value {
        // coordinates beyond the exact-arithmetic range of the specification (|m| >= 1e9 lattice units) are
        // logged like coord_proj logs them (0, and the stored vertex is `pert /\ ~dok`: geometry undecided);
        // the true values travel in `mw` for re-execution
        if self.m.iter().any(|x| x.abs() >= 1_000_000_000) {
            let cl: Vec<i64> = self.m.iter().map(|&x| if x.abs() >= 1_000_000_000 { 0 } else { x }).collect();
            let mw: Vec<String> = self.m.iter().map(|x| x.to_string()).collect();
            return json!({"u": tr.vid(self.uuid), "m": cl, "data": self.data.map_or(-1, i64::from), "cls": "probe", "mw": mw.join(",")});
        }
        json!({"u": tr.vid(self.uuid), "m": self.m, "data": self.data.map_or(-1, i64::from), "cls": self.cls})
    }
}

pub const GUARANTEES: [TopologyGuarantee; 3] = [
    TopologyGuarantee::Pseudomanifold,
    TopologyGuarantee::PLManifold,
    TopologyGuarantee::PLManifoldStrict,
];

#[derive(Clone, Copy, Debug)]
pub struct Opts {
    pub order: usize,  // 0 Input 1 Lexicographic 2 Morton 3 Hilbert
    pub dedup: usize,  // 0 Off 1 Exact 2 Epsilon(2^-20 * unit)
    pub simplex: usize, // 0 First 1 Balanced
    pub retry: usize,  // 0 Disabled 1 Shuffled{3,seed 7} 2 DebugOnlyShuffled{2, seed 11} 3 default
}

impl Opts {
    pub fn default_like() -> Self {
        Opts { order: 3, dedup: 0, simplex: 0, retry: 3 }
    }
    pub fn name(&self) -> String {
        format!("o{}d{}s{}r{}", self.order, self.dedup, self.simplex, self.retry)
    }
    pub fn build(&self, s: i32) -> ConstructionOptions {
        let order = match self.order {
            0 => InsertionOrderStrategy::Input,
            1 => InsertionOrderStrategy::Lexicographic,
            2 => InsertionOrderStrategy::Morton,
            _ => InsertionOrderStrategy::Hilbert,
        };
        let dedup = match self.dedup {
            0 => DedupPolicy::Off,
            1 => DedupPolicy::Exact,
            _ => DedupPolicy::Epsilon { tolerance: pow2(s - 20) },
        };
        let simplex = if self.simplex == 0 { InitialSimplexStrategy::First } else { InitialSimplexStrategy::Balanced };
        let mut o = ConstructionOptions::default()
            .with_insertion_order(order)
            .with_dedup_policy(dedup)
            .with_initial_simplex_strategy(simplex);
        match self.retry {
            0 => o = o.with_retry_policy(RetryPolicy::Disabled),
            1 => {
                o = o.with_retry_policy(RetryPolicy::Shuffled {
                    attempts: NonZeroUsize::new(3).unwrap(),
                    base_seed: Some(7),
                })
            }
            2 => {
                o = o.with_retry_policy(RetryPolicy::DebugOnlyShuffled {
                    attempts: NonZeroUsize::new(2).unwrap(),
                    base_seed: Some(11),
                })
            }
            _ => {}
        }
        o
    }
}

pub fn profile() -> &'static str {
    if cfg!(debug_assertions) { "debug" } else { "release" }
}

/// which constructor entry point to go through
#[derive(Clone, Copy, Debug, PartialEq, Eq)]
pub enum Ctor {
    WithKernel,             // with_kernel(&k, vs)
    WithGuarantee,          // with_topology_guarantee(&k, vs, g)
    WithOptions,            // with_topology_guarantee_and_options
    WithOptionsStats,       // ..._with_construction_statistics
    Builder,                // DelaunayTriangulationBuilder::from_vertices(..).topology_guarantee(g).construction_options(o).build_with_kernel
}

pub fn op_construct<K: Kern<D>, const D: usize>(
    tr: &mut Tracer,
    obj: usize,
    ctor: Ctor,
    g: TopologyGuarantee,
    opts: Opts,
    input: &[VIn],
) -> Option<Dt<K, D>> {
    let s = tr.s;
    let vs: Vec<Vertex<f64, VData, D>> = input.iter().map(|v| v.vertex::<D>(s)).collect();
    let kernel = K::default();
    let o = opts.build(s);
    let in_args: Vec<Value> = input.iter().map(|v| v.args(tr)).collect();
    let g_eff = if ctor == Ctor::WithKernel { TopologyGuarantee::DEFAULT } else { g };
    let args = json!({"D": D, "kernel": K::NAME, "profile": profile(), "ctor": format!("{ctor:?}"),
        "g": format!("{g_eff:?}"), "opts": opts.name(), "dedup": if ctor == Ctor::WithKernel || ctor == Ctor::WithGuarantee { 0 } else { opts.dedup },
        "input": in_args, "L": Vec::<i64>::new(), "dkey": tr.dkey.clone()});
    let r = tr.guard("construct", || -> Result<(Dt<K, D>, i64, i64), String> {
        match ctor {
            Ctor::WithKernel => Dt::<K, D>::with_kernel(&kernel, &vs).map(|d| (d, -1, -1)).map_err(|e| variant_path(&e)),
            Ctor::WithGuarantee => Dt::<K, D>::with_topology_guarantee(&kernel, &vs, g)
                .map(|d| (d, -1, -1))
                .map_err(|e| variant_path(&e)),
            Ctor::WithOptions => Dt::<K, D>::with_topology_guarantee_and_options(&kernel, &vs, g, o)
                .map(|d| (d, -1, -1))
                .map_err(|e| variant_path(&e)),
            Ctor::WithOptionsStats => {
                Dt::<K, D>::with_topology_guarantee_and_options_with_construction_statistics(&kernel, &vs, g, o)
                    .map(|(d, st)| {
                        let ins = st.inserted as i64;
                        let sk = st.total_skipped() as i64;
                        (d, ins, sk)
                    })
                    .map_err(|e| variant_path(&e))
            }
            Ctor::Builder => delaunay::core::builder::DelaunayTriangulationBuilder::from_vertices(&vs)
                .topology_guarantee(g)
                .construction_options(o)
                .build_with_kernel::<K, CData>(&kernel)
                .map(|d| (d, -1, -1))
                .map_err(|e| variant_path(&e)),
        }
    });
    match r {
        Guarded::Done(Ok((dt, ins, sk))) => {
            let post = tr.project(&dt);
            tr.emit("Construct", obj, args, json!({"kind":"Ok","inserted":ins,"skipped":sk}), Some(post), false);
            Some(dt)
        }
        Guarded::Done(Err(e)) => {
            tr.emit("Construct", obj, args, json!({"kind":"Err","err":e,"inserted":-1,"skipped":-1}), Some(dead_state()), false);
            None
        }
        Guarded::Panicked(msg) => {
            tr.emit("Construct", obj, args, json!({"kind":"Panic","msg":msg}), Some(dead_state()), true);
            None
        }
    }
}

pub fn op_empty<K: Kern<D>, const D: usize>(tr: &mut Tracer, obj: usize, g: TopologyGuarantee) -> Dt<K, D> {
    let dt = Dt::<K, D>::with_empty_kernel_and_topology_guarantee(K::default(), g);
    let post = tr.project(&dt);
    tr.emit("Empty", obj, json!({"D":D,"kernel":K::NAME,"profile":profile(),"g":format!("{g:?}")}), json!({}), Some(post), false);
    dt
}

/// returns false if the call panicked (history must be abandoned)
pub fn op_insert<K: Kern<D>, const D: usize>(
    tr: &mut Tracer,
    obj: usize,
    dt: &mut Dt<K, D>,
    v: &VIn,
    with_stats: bool,
) -> bool {
    let vert = v.vertex::<D>(tr.s);
    let mut args = v.args(tr);
    args["stats"] = json!(with_stats);
    let uuid = v.uuid;
    let r = tr.guard("insert", || -> (String, String, Option<VertexKey>, i64) {
        if with_stats {
            match dt.insert_with_statistics(vert) {
                Ok((InsertionOutcome::Inserted { vertex_key, .. }, st)) => {
                    ("Inserted".into(), String::new(), Some(vertex_key), st.attempts as i64)
                }
                Ok((InsertionOutcome::Skipped { error }, st)) => {
                    ("Skipped".into(), variant(&error), None, st.attempts as i64)
                }
                Err(e) => ("Err".into(), variant(&e), None, -1),
            }
        } else {
            match dt.insert(vert) {
                Ok(k) => ("Inserted".into(), String::new(), Some(k), -1),
                Err(e) => ("Err".into(), variant(&e), None, -1),
            }
        }
    });
    match r {
        Guarded::Done((kind, err, key, attempts)) => {
            let key_ok = match key {
                Some(k) => dt.tds().get_vertex_by_key(k).is_some_and(|x| x.uuid() == uuid),
                None => false,
            };
            let post = tr.project(dt);
            tr.emit("Insert", obj, args, json!({"kind":kind,"err":err,"key_ok":key_ok,"attempts":attempts}), Some(post), false);
            true
        }
        Guarded::Panicked(msg) => {
            tr.emit("Insert", obj, args, json!({"kind":"Panic","msg":msg}), None, true);
            false
        }
    }
}

pub fn find_vertex<K: Kern<D>, const D: usize>(dt: &Dt<K, D>, u: Uuid) -> Option<(VertexKey, Vertex<f64, VData, D>)> {
    dt.vertices().find(|(_, v)| v.uuid() == u).map(|(k, v)| (k, *v))
}

pub fn op_remove<K: Kern<D>, const D: usize>(tr: &mut Tracer, obj: usize, dt: &mut Dt<K, D>, u: Uuid) -> bool {
    let vert = match find_vertex(dt, u) {
        Some((_, v)) => v,
        None => mk_vertex::<D>(u, &vec![0; D], tr.s, 0.0, None),
    };
    let args = json!({"v": tr.vid(u)});
    let r = tr.guard("remove_vertex", || match dt.remove_vertex(&vert) {
        Ok(n) => ("Ok".to_string(), String::new(), n as i64),
        Err(e) => ("Err".to_string(), variant(&e), -1),
    });
    match r {
        Guarded::Done((kind, err, n)) => {
            let post = tr.project(dt);
            tr.emit("Remove", obj, args, json!({"kind":kind,"err":err,"n":n}), Some(post), false);
            true
        }
        Guarded::Panicked(msg) => {
            tr.emit("Remove", obj, args, json!({"kind":"Panic","msg":msg}), None, true);
            false
        }
    }
}

#[derive(Clone, Debug)]
pub enum FlipArg {
    K1Insert(CellKey, VIn),
    K1Remove(VertexKey),
    K2(CellKey, u8),
    K3(CellKey, u8, u8),
    K2Inv(VertexKey, VertexKey),
    K3Inv(VertexKey, VertexKey, VertexKey),
}

impl FlipArg {
    pub fn mv(&self) -> &'static str {
        match self {
            FlipArg::K1Insert(..) => "k1i",
            FlipArg::K1Remove(..) => "k1r",
            FlipArg::K2(..) => "k2",
            FlipArg::K3(..) => "k3",
            FlipArg::K2Inv(..) => "k2inv",
            FlipArg::K3Inv(..) => "k3inv",
        }
    }
}

pub struct FlipOut {
    pub err: String,
    pub ok: bool,
    pub panicked: bool,
    pub line: usize,
    pub iface: Vec<VertexKey>,
    pub rface: Vec<VertexKey>,
    pub new_cells: Vec<CellKey>,
}

/// `restores`: trace line whose post-state this (inverse) move must reproduce, 0 = none
pub fn op_flip<K: Kern<D>, const D: usize>(
    tr: &mut Tracer,
    obj: usize,
    dt: &mut Dt<K, D>,
    fa: &FlipArg,
    restores: usize,
    note: &str,
) -> FlipOut {
    let mv = fa.mv();
    // describe the handle in abstract ids BEFORE the call
    let handle = {
        let tds = dt.tds();
        match fa {
            FlipArg::K1Insert(ck, v) => json!({"cell": tr.ckey_id(tds, *ck), "vertex": v.args(tr)}),
            FlipArg::K1Remove(vk) => json!({"v": tr.vkey_id(tds, *vk)}),
            FlipArg::K2(ck, i) => json!({"cell": tr.ckey_id(tds, *ck), "i": *i as i64 + 1}),
            FlipArg::K3(ck, i, j) => json!({"cell": tr.ckey_id(tds, *ck), "i": *i as i64 + 1, "j": *j as i64 + 1}),
            FlipArg::K2Inv(a, b) => json!({"vs": [tr.vkey_id(tds, *a), tr.vkey_id(tds, *b)]}),
            FlipArg::K3Inv(a, b, c) => json!({"vs": [tr.vkey_id(tds, *a), tr.vkey_id(tds, *b), tr.vkey_id(tds, *c)]}),
        }
    };
    // `back`: how many lines before this one the state to be restored was recorded (relative, so
    // that a trace cut at case boundaries stays valid)
    let back = if restores > 0 { tr.line + 1 - restores } else { 0 };
    let args = json!({"mv": mv, "h": handle, "restores": back, "note": note});
    // abstract ids of all cells before (to name removed cells afterwards)
    let pre_cells: Vec<(CellKey, i64)> = {
        let tds = dt.tds();
        let keys: Vec<CellKey> = tds.cell_keys().collect();
        keys.into_iter().map(|k| (k, tr.ckey_id(tds, k))).collect()
    };
    let pre_verts: Vec<(VertexKey, i64)> = {
        let tds = dt.tds();
        let keys: Vec<VertexKey> = tds.vertex_keys().collect();
        keys.into_iter().map(|k| (k, tr.vkey_id(tds, k))).collect()
    };
    let s = tr.s;
    let r = tr.guard("flip", || match fa {
        FlipArg::K1Insert(ck, v) => dt.flip_k1_insert(*ck, v.vertex::<D>(s)),
        FlipArg::K1Remove(vk) => dt.flip_k1_remove(*vk),
        FlipArg::K2(ck, i) => dt.flip_k2(FacetHandle::new(*ck, *i)),
        FlipArg::K3(ck, i, j) => dt.flip_k3(RidgeHandle::new(*ck, *i, *j)),
        FlipArg::K2Inv(a, b) => dt.flip_k2_inverse_from_edge(EdgeKey::new(*a, *b)),
        FlipArg::K3Inv(a, b, c) => dt.flip_k3_inverse_from_triangle(TriangleHandle::new(*a, *b, *c)),
    });
    match r {
        Guarded::Done(Ok(info)) => {
            let post = tr.project(dt);
            let tds = dt.tds();
            let lookup_c = |k: &CellKey, tr: &mut Tracer| -> i64 {
                pre_cells.iter().find(|(pk, _)| pk == k).map_or_else(|| tr.ckey_id(tds, *k), |x| x.1)
            };
            let lookup_v = |k: &VertexKey, tr: &mut Tracer| -> i64 {
                pre_verts.iter().find(|(pk, _)| pk == k).map_or_else(|| tr.vkey_id(tds, *k), |x| x.1)
            };
            let removed: Vec<i64> = info.removed_cells.iter().map(|k| lookup_c(k, tr)).collect();
            let created: Vec<i64> = info.new_cells.iter().map(|k| tr.ckey_id(tds, *k)).collect();
            let rface: Vec<i64> = info.removed_face_vertices.iter().map(|k| lookup_v(k, tr)).collect();
            let iface: Vec<i64> = info.inserted_face_vertices.iter().map(|k| lookup_v(k, tr)).collect();
            let res = json!({"kind":"Ok","err":"","removed":removed,"created":created,"rface":rface,"iface":iface,
                "fkind": format!("{:?}", info.kind), "dir": format!("{:?}", info.direction)});
            let line = tr.emit("Flip", obj, args, res, Some(post), false);
            FlipOut {
                err: String::new(),
                ok: true,
                panicked: false,
                line,
                iface: info.inserted_face_vertices.iter().copied().collect(),
                rface: info.removed_face_vertices.iter().copied().collect(),
                new_cells: info.new_cells.iter().copied().collect(),
            }
        }
        Guarded::Done(Err(e)) => {
            let post = tr.project(dt);
            let res = json!({"kind":"Err","err":variant(&e),"removed":[],"created":[],"rface":[],"iface":[]});
            let line = tr.emit("Flip", obj, args, res, Some(post), false);
            FlipOut { err: variant(&e), ok: false, panicked: false, line, iface: vec![], rface: vec![], new_cells: vec![] }
        }
        Guarded::Panicked(msg) => {
            let line = tr.emit("Flip", obj, args, json!({"kind":"Panic","msg":msg}), None, true);
            FlipOut { err: "Panic".into(), ok: false, panicked: true, line, iface: vec![], rface: vec![], new_cells: vec![] }
        }
    }
}

pub fn op_repair<K: Kern<D>, const D: usize>(
    tr: &mut Tracer,
    obj: usize,
    dt: &mut Dt<K, D>,
    advanced: bool,
    seeds: Option<(u64, u64)>,
    gpmax: usize,
) -> bool {
    let args = json!({"adv": advanced, "seeded": seeds.is_some(), "gpmax": gpmax, "profile": profile()});
    let r = tr.guard("repair", || {
        if advanced {
            let cfg = DelaunayRepairHeuristicConfig {
                shuffle_seed: seeds.map(|s| s.0),
                perturbation_seed: seeds.map(|s| s.1),
            };
            match dt.repair_delaunay_with_flips_advanced(cfg) {
                Ok(o) => ("Ok".to_string(), String::new(), o.stats.flips_performed as i64, o.stats.facets_checked as i64, o.used_heuristic()),
                Err(e) => ("Err".to_string(), variant(&e), -1, -1, false),
            }
        } else {
            match dt.repair_delaunay_with_flips() {
                Ok(st) => ("Ok".to_string(), String::new(), st.flips_performed as i64, st.facets_checked as i64, false),
                Err(e) => ("Err".to_string(), variant(&e), -1, -1, false),
            }
        }
    });
    match r {
        Guarded::Done((kind, err, flips, checked, heur)) => {
            let post = tr.project(dt);
            tr.emit("Repair", obj, args, json!({"kind":kind,"err":err,"flips":flips,"checked":checked,"heuristic":heur}), Some(post), false);
            true
        }
        Guarded::Panicked(msg) => {
            tr.emit("Repair", obj, args, json!({"kind":"Panic","msg":msg}), None, true);
            false
        }
    }
}

pub fn op_verdicts<K: Kern<D>, const D: usize>(tr: &mut Tracer, obj: usize, dt: &Dt<K, D>, gpmax: usize) -> bool {
    let r = tr.guard("verdicts", || {
        let is_valid = dt.is_valid().is_ok();
        let validate = dt.validate().is_ok();
        let report_empty = dt.validation_report().is_ok();
        let via_flips = dt.is_delaunay_via_flips().is_ok();
        let brute = match find_delaunay_violations(dt.tds(), None) {
            Ok(v) => v.len() as i64,
            Err(_) => -1,
        };
        let tds_valid = dt.tds().is_valid().is_ok();
        let tds_validate = dt.tds().validate().is_ok();
        let tri_valid = dt.as_triangulation().is_valid().is_ok();
        let tri_validate = dt.as_triangulation().validate().is_ok();
        json!({"is_valid":is_valid,"validate":validate,"report_empty":report_empty,"via_flips":via_flips,
            "brute":brute,"tds_valid":tds_valid,"tds_validate":tds_validate,"tri_valid":tri_valid,
            "tri_validate":tri_validate,"gpmax":gpmax})
    });
    match r {
        Guarded::Done(res) => {
            tr.emit("Verdicts", obj, json!({}), res, None, false);
            true
        }
        Guarded::Panicked(msg) => {
            tr.emit("Verdicts", obj, json!({}), json!({"kind":"Panic","msg":msg}), None, true);
            false
        }
    }
}

#[derive(Clone, Copy, Debug)]
pub enum PolicySet {
    Validation(ValidationPolicy),
    Repair(DelaunayRepairPolicy),
    Check(DelaunayCheckPolicy),
    Guarantee(TopologyGuarantee),
}

pub fn op_set_policy<K: Kern<D>, const D: usize>(tr: &mut Tracer, obj: usize, dt: &mut Dt<K, D>, p: PolicySet) -> bool {
    let args = json!({"set": format!("{p:?}")});
    let r = tr.guard("set_policy", || match p {
        PolicySet::Validation(v) => dt.set_validation_policy(v),
        PolicySet::Repair(v) => dt.set_delaunay_repair_policy(v),
        PolicySet::Check(v) => dt.set_delaunay_check_policy(v),
        PolicySet::Guarantee(v) => dt.set_topology_guarantee(v),
    });
    match r {
        Guarded::Done(()) => {
            let post = tr.project(dt);
            tr.emit("SetPolicy", obj, args, json!({}), Some(post), false);
            true
        }
        Guarded::Panicked(msg) => {
            tr.emit("SetPolicy", obj, args, json!({"kind":"Panic","msg":msg}), None, true);
            false
        }
    }
}

/// C16: builder with a toroidal domain. `lm` = periods in lattice units; `periodic` selects the
/// image-point (true quotient) mode.
pub fn op_construct_toroidal<K: Kern<D>, const D: usize>(
    tr: &mut Tracer,
    obj: usize,
    g: TopologyGuarantee,
    lm: &[i64],
    periodic: bool,
    input: &[VIn],
) -> Option<Dt<K, D>> {
    let s = tr.s;
    let vs: Vec<Vertex<f64, VData, D>> = input.iter().map(|v| v.vertex::<D>(s)).collect();
    let kernel = K::default();
    let mut domain = [0f64; D];
    for j in 0..D {
        domain[j] = lm[j] as f64 * pow2(s);
    }
    let in_args: Vec<Value> = input.iter().map(|v| v.args(tr)).collect();
    let args = json!({"D": D, "kernel": K::NAME, "profile": profile(), "ctor": if periodic { "ToroidalPeriodic" } else { "Toroidal" },
        "g": format!("{g:?}"), "opts": "default", "input": in_args, "L": lm, "dkey": ""});
    let r = tr.guard("construct_toroidal", || {
        let b = delaunay::core::builder::DelaunayTriangulationBuilder::from_vertices(&vs).topology_guarantee(g);
        let b = if periodic { b.toroidal_periodic(domain) } else { b.toroidal(domain) };
        b.build_with_kernel::<K, CData>(&kernel).map_err(|e| variant_path(&e))
    });
    match r {
        Guarded::Done(Ok(dt)) => {
            let post = tr.project(&dt);
            tr.emit("Construct", obj, args, json!({"kind":"Ok","inserted":-1,"skipped":-1}), Some(post), false);
            Some(dt)
        }
        Guarded::Done(Err(e)) => {
            tr.emit("Construct", obj, args, json!({"kind":"Err","err":e,"inserted":-1,"skipped":-1}), Some(dead_state()), false);
            None
        }
        Guarded::Panicked(msg) => {
            tr.emit("Construct", obj, args, json!({"kind":"Panic","msg":msg}), Some(dead_state()), true);
            None
        }
    }
}

/// C09 probe: insert a fresh-uuid vertex at (or within / beyond the duplicate tolerance of) the exact
/// STORED coordinates of an existing vertex - also for vertices the library perturbed off the lattice.
/// kind: "copy" (bit-identical), "nearcopy" (+2^-36 on axis 0, inside 1e-10), "farcopy" (+2^-30: outside)
pub fn op_insert_copy<K: Kern<D>, const D: usize>(tr: &mut Tracer, obj: usize, dt: &mut Dt<K, D>, of: Uuid, kind: &'static str, n: u64, with_stats: bool) -> bool {
    let Some((_, target)) = find_vertex(dt, of) else { return true };
    let mut c = *target.point().coords();
    // absolute offsets (the tolerance 1e-10 is absolute); only meaningful when coordinates are O(1..100)
    match kind {
        "nearcopy" => c[0] += 2f64.powi(-36),
        "farcopy" => c[0] += 2f64.powi(-30),
        "farcopy27" => c[0] += 2f64.powi(-27),
        "farcopy24" => c[D - 1] -= 2f64.powi(-24),
        _ => {}
    }
    if c == *target.point().coords() && kind != "copy" {
        return true; // offset lost to rounding at this magnitude: not a meaningful probe
    }
    let (m, _, _, _) = tr.coord_proj(target.point().coords());
    let vert = Vertex::<f64, VData, D>::new_with_uuid(delaunay::geometry::point::Point::new(c), mk_uuid(n), Some(31));
    let args = json!({"u": tr.vid(mk_uuid(n)), "m": m, "data": 31, "cls": kind, "of": tr.vid(of), "stats": with_stats});
    let uuid = mk_uuid(n);
    let r = tr.guard("insert(copy probe)", || -> (String, String, Option<VertexKey>, i64) {
        if with_stats {
            match dt.insert_with_statistics(vert) {
                Ok((InsertionOutcome::Inserted { vertex_key, .. }, st)) => ("Inserted".into(), String::new(), Some(vertex_key), st.attempts as i64),
                Ok((InsertionOutcome::Skipped { error }, st)) => ("Skipped".into(), variant(&error), None, st.attempts as i64),
                Err(e) => ("Err".into(), variant(&e), None, -1),
            }
        } else {
            match dt.insert(vert) {
                Ok(k) => ("Inserted".into(), String::new(), Some(k), -1),
                Err(e) => ("Err".into(), variant(&e), None, -1),
            }
        }
    });
    match r {
        Guarded::Done((kind2, err, key, attempts)) => {
            let key_ok = key.is_some_and(|k| dt.tds().get_vertex_by_key(k).is_some_and(|x| x.uuid() == uuid));
            let post = tr.project(dt);
            tr.emit("InsertCopy", obj, args, json!({"kind":kind2,"err":err,"key_ok":key_ok,"attempts":attempts}), Some(post), false);
            true
        }
        Guarded::Panicked(msg) => {
            tr.emit("InsertCopy", obj, args, json!({"kind":"Panic","msg":msg}), None, true);
            false
        }
    }
}
