//! Lattice point-set generators and small exact-integer helpers used only for STEERING
//! the drivers (deciding which inputs to try); no verdict is ever taken from them.

use crate::proj::Rng;

/// all points of {0..side-1}^d
pub fn grid(d: usize, side: i64) -> Vec<Vec<i64>> {
    let mut out = vec![vec![]];
    for _ in 0..d {
        let mut nxt = Vec::new();
        for p in &out {
            for x in 0..side {
                let mut q = p.clone();
                q.push(x);
                nxt.push(q);
            }
        }
        out = nxt;
    }
    out
}

/// the subset of `pts` selected by bitmask
pub fn subset(pts: &[Vec<i64>], mask: u64) -> Vec<Vec<i64>> {
    pts.iter().enumerate().filter(|(i, _)| mask >> i & 1 == 1).map(|(_, p)| p.clone()).collect()
}

/// coordinate range that keeps TLC's 32-bit determinants safe (DESIGN.md section 3)
pub fn max_coord(d: usize) -> i64 {
    match d {
        2 => 15,
        3 => 7,
        4 => 3,
        _ => 2,
    }
}

pub fn max_points(d: usize) -> usize {
    match d {
        2 => 12,
        3 => 10,
        4 => 8,
        _ => 8,
    }
}

/// n distinct random lattice points
pub fn random_points(rng: &mut Rng, d: usize, n: usize, hi: i64) -> Vec<Vec<i64>> {
    let mut out: Vec<Vec<i64>> = Vec::new();
    let mut guard = 0;
    while out.len() < n && guard < 10_000 {
        guard += 1;
        let p: Vec<i64> = (0..d).map(|_| rng.range(0, hi)).collect();
        if !out.contains(&p) {
            out.push(p);
        }
    }
    out
}

/// clustered: points near a few centres (still distinct lattice points)
pub fn clustered_points(rng: &mut Rng, d: usize, n: usize, hi: i64) -> Vec<Vec<i64>> {
    let centres = random_points(rng, d, 2, hi);
    let mut out: Vec<Vec<i64>> = Vec::new();
    let mut guard = 0;
    while out.len() < n && guard < 10_000 {
        guard += 1;
        let c = rng.pick(&centres).clone();
        let p: Vec<i64> = c.iter().map(|&x| (x + rng.range(-1, 1)).clamp(0, hi)).collect();
        if !out.contains(&p) {
            out.push(p);
        }
    }
    // make sure the set is not contained in too small a box: add two far corners
    for corner in [vec![0; d], vec![hi; d]] {
        if out.len() < n + 2 && !out.contains(&corner) {
            out.push(corner);
        }
    }
    out
}

/// degenerate family: many points on a common hyperplane x0 = c and on a coarse sub-grid
pub fn degenerate_points(rng: &mut Rng, d: usize, n: usize, hi: i64) -> Vec<Vec<i64>> {
    let mut out: Vec<Vec<i64>> = Vec::new();
    let c = rng.range(0, hi);
    let step = if hi >= 4 { 2 } else { 1 };
    let mut guard = 0;
    while out.len() < n && guard < 10_000 {
        guard += 1;
        let mut p: Vec<i64> = (0..d).map(|_| (rng.range(0, hi / step)) * step).collect();
        if rng.chance(1, 2) {
            p[0] = c;
        }
        if !out.contains(&p) {
            out.push(p);
        }
    }
    out
}

// ------------------------------------------------------------------ exact integer helpers
pub fn det(m: &Vec<Vec<i128>>) -> i128 {
    let n = m.len();
    if n == 0 {
        return 1;
    }
    if n == 1 {
        return m[0][0];
    }
    if n == 2 {
        return m[0][0] * m[1][1] - m[0][1] * m[1][0];
    }
    let mut s = 0i128;
    for c in 0..n {
        if m[0][c] == 0 {
            continue;
        }
        let minor: Vec<Vec<i128>> =
            (1..n).map(|r| (0..n).filter(|&k| k != c).map(|k| m[r][k]).collect()).collect();
        let sign = if c % 2 == 0 { 1 } else { -1 };
        s += sign * m[0][c] * det(&minor);
    }
    s
}

pub fn orient(ps: &[Vec<i64>]) -> i128 {
    let d = ps[0].len();
    let m: Vec<Vec<i128>> =
        (1..ps.len()).map(|i| (0..d).map(|j| (ps[i][j] - ps[0][j]) as i128).collect()).collect();
    det(&m)
}

/// lifted determinant relative to q (sign convention irrelevant: used for zero tests only)
pub fn lifted(ps: &[Vec<i64>], q: &[i64]) -> i128 {
    let d = q.len();
    let m: Vec<Vec<i128>> = ps
        .iter()
        .map(|p| {
            let mut row: Vec<i128> = (0..d).map(|j| (p[j] - q[j]) as i128).collect();
            let n2: i128 = row.iter().map(|x| x * x).sum();
            row.push(n2);
            row
        })
        .collect();
    det(&m)
}

fn combos(n: usize, k: usize) -> Vec<Vec<usize>> {
    let mut out = Vec::new();
    let mut cur: Vec<usize> = (0..k).collect();
    if k > n {
        return out;
    }
    loop {
        out.push(cur.clone());
        let mut i = k;
        while i > 0 && cur[i - 1] == n - k + i - 1 {
            i -= 1;
        }
        if i == 0 {
            break;
        }
        cur[i - 1] += 1;
        for j in i..k {
            cur[j] = cur[j - 1] + 1;
        }
    }
    out
}

/// no d+1 points on a hyperplane and no d+2 points on a sphere
pub fn general_position(pts: &[Vec<i64>]) -> bool {
    if pts.is_empty() {
        return true;
    }
    let d = pts[0].len();
    for c in combos(pts.len(), d + 1) {
        let ps: Vec<Vec<i64>> = c.iter().map(|&i| pts[i].clone()).collect();
        if orient(&ps) == 0 {
            return false;
        }
    }
    for c in combos(pts.len(), d + 2) {
        let ps: Vec<Vec<i64>> = c[..d + 1].iter().map(|&i| pts[i].clone()).collect();
        if lifted(&ps, &pts[c[d + 1]]) == 0 {
            return false;
        }
    }
    true
}

/// random points in general position (rejection sampling)
pub fn gp_points(rng: &mut Rng, d: usize, n: usize, hi: i64) -> Vec<Vec<i64>> {
    let mut out: Vec<Vec<i64>> = Vec::new();
    let mut guard = 0;
    while out.len() < n && guard < 3000 {
        guard += 1;
        let p: Vec<i64> = (0..d).map(|_| rng.range(0, hi)).collect();
        if out.contains(&p) {
            continue;
        }
        out.push(p);
        if !general_position(&out) {
            out.pop();
        }
    }
    out
}
