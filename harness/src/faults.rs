//! C05: every single-fault corruption of valid triangulations, applied to a copy of the Tds through the
//! `delaunay_verif` fault-injection hooks (and the public mutators where they suffice); the library's
//! validators are then asked, and TLC recomputes every level from the raw projected representation.

use crate::drivers::*;
use crate::ops::*;
use crate::points::*;
use crate::proj::*;
use delaunay::core::triangulation::TopologyGuarantee;
use delaunay::core::triangulation_data_structure::{CellKey, Tds, VertexKey};
use delaunay::core::util::delaunay_validation::find_delaunay_violations;
use delaunay::geometry::kernel::{FastKernel, RobustKernel};
use delaunay::geometry::point::Point;
use delaunay::geometry::traits::coordinate::Coordinate;
use serde_json::{Value, json};

type T<const D: usize> = Tds<f64, VData, CData, D>;

/// project the raw (possibly corrupted) representation; extra raw facts TLC needs for Level 1
fn project_raw<K: Kern<D>, const D: usize>(tr: &mut Tracer, dt: &Dt<K, D>) -> Value {
    let mut post = tr.project(dt);
    let tds = dt.tds();
    // per-vertex finiteness and per-cell raw arities (the projection maps dangling keys to 0 / 999999)
    let mut fin = serde_json::Map::new();
    for (_, v) in tds.vertices() {
        let id = tr.vid(v.uuid());
        fin.insert(id.to_string(), json!(v.point().coords().iter().all(|x| x.is_finite())));
    }
    let mut nbl = serde_json::Map::new();
    for (_, c) in tds.cells() {
        let id = tr.cid(c.uuid());
        nbl.insert(id.to_string(), json!(c.neighbors().map_or(-1, |b| b.len() as i64)));
    }
    post["finite"] = Value::Object(fin);
    post["nblen"] = Value::Object(nbl);
    // uuid map consistency as observable through the public lookups
    let map_ok = tds.vertices().all(|(k, v)| tds.vertex_key_from_uuid(&v.uuid()) == Some(k))
        && tds.cells().all(|(k, c)| tds.cell_key_from_uuid(&c.uuid()) == Some(k));
    post["maps_ok"] = json!(map_ok);
    post
}

fn verdicts<K: Kern<D>, const D: usize>(dt: &Dt<K, D>) -> Value {
    let tds = dt.tds();
    let cells_valid = tds.cells().all(|(_, c)| c.is_valid().is_ok());
    let verts_valid = tds.vertices().all(|(_, v)| (*v).is_valid().is_ok());
    let report = dt.validation_report();
    json!({
        "cells_valid": cells_valid, "verts_valid": verts_valid,
        "tds_valid": tds.is_valid().is_ok(), "tds_validate": tds.validate().is_ok(),
        "tri_valid": dt.as_triangulation().is_valid().is_ok(),
        "tri_validate": dt.as_triangulation().validate().is_ok(),
        "tri_completion": dt.as_triangulation().validate_at_completion().is_ok(),
        "is_valid": dt.is_valid().is_ok(), "validate": dt.validate().is_ok(),
        "report_empty": report.is_ok(),
        "brute": find_delaunay_violations(tds, None).map_or(-1, |v| v.len() as i64),
    })
}

#[derive(Clone, Debug)]
pub enum Fault {
    None,
    DanglingNeighbor(usize, usize),      // cell index, slot -> key of a removed cell
    OneWayNeighbor(usize, usize),        // clear the back pointer in the neighbour
    WrongMirrorSlot(usize, usize, usize), // move a neighbour pointer to another slot
    DuplicateCell(usize),
    MissingCellRaw(usize),               // removed from storage, neighbours left dangling
    MissingCellClean(usize),             // removed, neighbour pointers cleared
    RepeatedVertex(usize, usize, usize), // slot a := vertex of slot b
    SwapSlots(usize, usize, usize),      // vertex slots swapped, neighbours swapped with them
    InvertCell(usize, usize, usize),     // vertex slots swapped, neighbours NOT swapped
    FlatCell(usize, usize, usize),       // vertex a of the cell moved onto vertex b's position
    GlueVertices(usize, usize),          // vertex index a replaced by b everywhere, a removed
    IsolatedVertex,
    NonFinite(usize, usize),             // vertex index, 0 NaN / 1 +inf
    StaleIncident(usize),                // incident_cell := key of a removed cell
    WrongIncident(usize),                // incident_cell := a live cell not containing the vertex
    UnmapVertexUuid(usize),
    DropNeighborBuffer(usize),
    CutOffCell(usize),                   // every neighbour of the cell removed cleanly: a one-cell component without a neighbour buffer
}

fn apply<const D: usize>(tds: &mut T<D>, f: &Fault, stale_cell: CellKey, s: i32) -> bool {
    let cks: Vec<CellKey> = tds.cell_keys().collect();
    let vks: Vec<VertexKey> = tds.vertex_keys().collect();
    let ck = |i: usize| cks[i % cks.len()];
    let vk = |i: usize| vks[i % vks.len()];
    match f {
        Fault::None => true,
        Fault::DanglingNeighbor(c, slot) => {
            let Some(cell) = tds.get_cell_by_key_mut(ck(*c)) else { return false };
            let nb = cell.verif_neighbors_mut();
            let buf = nb.get_or_insert_with(|| {
                let mut b = delaunay::core::collections::NeighborBuffer::new();
                b.resize(D + 1, None);
                b
            });
            buf[*slot % (D + 1)] = Some(stale_cell);
            true
        }
        Fault::OneWayNeighbor(c, slot) => {
            let a = ck(*c);
            let target = tds.get_cell(a).and_then(|cell| cell.neighbors().and_then(|b| b[*slot % (D + 1)]));
            let Some(n) = target else { return false };
            let Some(ncell) = tds.get_cell_by_key_mut(n) else { return false };
            if let Some(buf) = ncell.verif_neighbors_mut().as_mut() {
                for x in buf.iter_mut() {
                    if *x == Some(a) {
                        *x = None;
                        return true;
                    }
                }
            }
            false
        }
        Fault::WrongMirrorSlot(c, from, to) => {
            let Some(cell) = tds.get_cell_by_key_mut(ck(*c)) else { return false };
            let Some(buf) = cell.verif_neighbors_mut().as_mut() else { return false };
            let (i, j) = (*from % (D + 1), *to % (D + 1));
            if i == j || buf[i] == buf[j] {
                return false;
            }
            buf.swap(i, j);
            true
        }
        Fault::DuplicateCell(c) => tds.verif_insert_duplicate_cell(ck(*c)).is_some(),
        Fault::MissingCellRaw(c) => tds.remove_cell_by_key(ck(*c)).is_some(),
        Fault::MissingCellClean(c) => tds.remove_cells_by_keys(&[ck(*c)]) == 1,
        Fault::RepeatedVertex(c, a, b) => {
            let Some(cell) = tds.get_cell_by_key_mut(ck(*c)) else { return false };
            let vs = cell.verif_vertices_mut();
            let (i, j) = (*a % (D + 1), *b % (D + 1));
            if i == j {
                return false;
            }
            vs[i] = vs[j];
            true
        }
        Fault::SwapSlots(c, a, b) | Fault::InvertCell(c, a, b) => {
            let Some(cell) = tds.get_cell_by_key_mut(ck(*c)) else { return false };
            let (i, j) = (*a % (D + 1), *b % (D + 1));
            if i == j {
                return false;
            }
            cell.verif_vertices_mut().swap(i, j);
            if matches!(f, Fault::SwapSlots(..)) {
                if let Some(buf) = cell.verif_neighbors_mut().as_mut() {
                    buf.swap(i, j);
                }
            }
            true
        }
        Fault::FlatCell(c, a, b) => {
            let (i, j) = (*a % (D + 1), *b % (D + 1));
            if i == j {
                return false;
            }
            let Some(cell) = tds.get_cell(ck(*c)) else { return false };
            let (va, vb) = (cell.vertices()[i], cell.vertices()[j]);
            let Some(pb) = tds.get_vertex_by_key(vb).map(|v| *v.point()) else { return false };
            let Some(v) = tds.get_vertex_by_key_mut(va) else { return false };
            v.verif_set_point(pb);
            true
        }
        Fault::GlueVertices(a, b) => {
            let (x, y) = (vk(*a), vk(*b));
            if x == y {
                return false;
            }
            // only glue vertices that share no cell (otherwise a cell would repeat a vertex)
            let share = tds.cells().any(|(_, c)| c.vertices().contains(&x) && c.vertices().contains(&y));
            if share {
                return false;
            }
            for k in cks {
                if let Some(cell) = tds.get_cell_by_key_mut(k) {
                    for v in cell.verif_vertices_mut().iter_mut() {
                        if *v == x {
                            *v = y;
                        }
                    }
                }
            }
            // x is now in no cell: remove it through the public API (it has no incident cells)
            if let Some(vx) = tds.get_vertex_by_key(x).copied() {
                let _ = vx;
            }
            true
        }
        Fault::IsolatedVertex => {
            let mut c = [0f64; D];
            for (j, x) in c.iter_mut().enumerate() {
                *x = (1 + j as i64) as f64 * pow2(s) + 0.0;
            }
            c[0] = 1.0 * pow2(s);
            let v = delaunay::core::vertex::Vertex::<f64, VData, D>::new_with_uuid(Point::new(c), mk_uuid(42_424_242), Some(4242));
            tds.verif_insert_isolated_vertex(v).is_some()
        }
        Fault::NonFinite(a, kind) => {
            let Some(v) = tds.get_vertex_by_key_mut(vk(*a)) else { return false };
            let mut c = *v.point().coords();
            c[0] = if *kind == 0 { f64::NAN } else { f64::INFINITY };
            v.verif_set_point(Point::new(c));
            true
        }
        Fault::StaleIncident(a) => {
            let Some(v) = tds.get_vertex_by_key_mut(vk(*a)) else { return false };
            v.incident_cell = Some(stale_cell);
            true
        }
        Fault::WrongIncident(a) => {
            let x = vk(*a);
            let other = tds.cells().find(|(_, c)| !c.vertices().contains(&x)).map(|(k, _)| k);
            let Some(o) = other else { return false };
            let Some(v) = tds.get_vertex_by_key_mut(x) else { return false };
            v.incident_cell = Some(o);
            true
        }
        Fault::UnmapVertexUuid(a) => tds.verif_unmap_vertex_uuid(vk(*a)),
        Fault::CutOffCell(c) => {
            let a = ck(*c);
            let nbs: Vec<CellKey> = tds.get_cell(a).and_then(|cell| cell.neighbors().map(|b| b.iter().flatten().copied().collect())).unwrap_or_default();
            if nbs.is_empty() || nbs.len() + 1 >= cks.len() {
                return false;
            }
            tds.remove_cells_by_keys(&nbs) == nbs.len()
        }
        Fault::DropNeighborBuffer(c) => {
            let Some(cell) = tds.get_cell_by_key_mut(ck(*c)) else { return false };
            let had = cell.neighbors().is_some_and(|b| b.iter().any(Option::is_some));
            *cell.verif_neighbors_mut() = None;
            had
        }
    }
}

fn enumerate_faults<const D: usize>(nc: usize, nv: usize, r: &mut Rng, cap: usize) -> Vec<Fault> {
    let mut fs: Vec<Fault> = vec![Fault::None, Fault::IsolatedVertex];
    for c in 0..nc {
        fs.push(Fault::DuplicateCell(c));
        fs.push(Fault::MissingCellRaw(c));
        fs.push(Fault::MissingCellClean(c));
        fs.push(Fault::DropNeighborBuffer(c));
        for a in 0..=D {
            fs.push(Fault::DanglingNeighbor(c, a));
            fs.push(Fault::OneWayNeighbor(c, a));
            for b in 0..=D {
                if a != b {
                    fs.push(Fault::RepeatedVertex(c, a, b));
                    fs.push(Fault::FlatCell(c, a, b));
                }
                if a < b {
                    fs.push(Fault::WrongMirrorSlot(c, a, b));
                    fs.push(Fault::SwapSlots(c, a, b));
                    fs.push(Fault::InvertCell(c, a, b));
                }
            }
        }
    }
    for a in 0..nv {
        fs.push(Fault::NonFinite(a, 0));
        fs.push(Fault::NonFinite(a, 1));
        fs.push(Fault::StaleIncident(a));
        fs.push(Fault::WrongIncident(a));
        fs.push(Fault::UnmapVertexUuid(a));
        for b in 0..nv {
            if a != b {
                fs.push(Fault::GlueVertices(a, b));
            }
        }
    }
    if fs.len() > cap {
        let head: Vec<Fault> = fs[..2].to_vec();
        let mut tail: Vec<Fault> = fs[2..].to_vec();
        r.shuffle(&mut tail);
        tail.truncate(cap - 2);
        fs = head;
        fs.extend(tail);
    }
    fs
}

fn fault_case<K: Kern<D>, const D: usize>(cx: &mut Ctx, r: &mut Rng, idx: usize) {
    let g = GUARANTEES[idx % 3];
    cx.start_case(format!("C05 faults D={D} k={} g={g:?} i={idx}", K::NAME));
    let hi = max_coord(D);
    // every third case a larger complex (room for two independent faults)
    let n = if idx % 3 == 2 && D <= 3 { D + 5 + r.below(4) } else { D + 2 + r.below(3) };
    let pts = if idx % 2 == 0 { gp_points(r, D, n.min(7), hi) } else { random_points(r, D, n, hi) };
    if pts.len() < D + 1 {
        return;
    }
    let input = cx.inputs(&pts, true);
    let Some(dt) = op_construct::<K, D>(&mut cx.tr, 0, Ctor::WithGuarantee, g, Opts::default_like(), &input) else { return };
    // a key of a cell that no longer exists: take it from a clone in which a cell was removed
    let stale = {
        let mut t = dt.tds().clone();
        let k = t.cell_keys().next().unwrap();
        // insert+remove a duplicate so that the stale key is not a live key of `dt`
        let dup = t.verif_insert_duplicate_cell(k).unwrap();
        t.remove_cell_by_key(dup);
        dup
    };
    let cap = if cx.thorough { 400 } else { 90 };
    let faults = enumerate_faults::<D>(dt.number_of_cells(), dt.number_of_vertices(), r, cap);
    // pairs of faults on small instances
    let mut plans: Vec<Vec<Fault>> = faults.iter().map(|f| vec![f.clone()]).collect();
    if dt.number_of_cells() <= 4 {
        for _ in 0..(if cx.thorough { 120 } else { 20 }) {
            let a = r.pick(&faults).clone();
            let b = r.pick(&faults).clone();
            plans.push(vec![a, b]);
        }
    }
    // a cut-off one-cell component (legal at Level 2) together with a fault somewhere else: what one
    // cell looks like must not decide whether the others are examined
    {
        let nc = dt.number_of_cells();
        for t in 0..(if cx.thorough { 60 } else { 16 }) {
            let c0 = if t % 2 == 0 { 0 } else { r.below(nc) };
            let (a, b) = (r.below(D + 1), r.below(D + 1));
            let second = match t % 4 {
                0 | 1 => Fault::SwapSlots(r.below(nc), a.min(b), a.max(b)),
                2 => Fault::InvertCell(r.below(nc), a.min(b), a.max(b)),
                _ => r.pick(&faults).clone(),
            };
            plans.push(vec![Fault::CutOffCell(c0), second.clone()]);
            plans.push(vec![second, Fault::CutOffCell(c0)]);
        }
        for c in 0..nc.min(6) {
            plans.push(vec![Fault::CutOffCell(c)]);
        }
    }
    for plan in plans {
        let mut tds = dt.tds().clone();
        let mut applied = Vec::new();
        for f in &plan {
            if apply::<D>(&mut tds, f, stale, cx.tr.s) {
                applied.push(format!("{f:?}"));
            }
        }
        if applied.is_empty() {
            continue;
        }
        let what = format!("fault {applied:?}");
        let g2 = cx.tr.guard(&what, || {
            let bad = Dt::<K, D>::from_tds_with_topology_guarantee(tds, K::default(), g);
            let v = verdicts(&bad);
            (bad, v)
        });
        match g2 {
            Guarded::Done((bad, v)) => {
                let post = project_raw(&mut cx.tr, &bad);
                let classes: Vec<String> = plan.iter().map(|f| variant(f)).collect();
                cx.tr.emit("Faulted", 1, json!({"faults": applied, "classes": classes, "clean": plan.iter().all(|f| matches!(f, Fault::None))}), v, Some(post.clone()), false);
                // the public maintenance calls of Tds on the faulted state (each on its own copy)
                if plan.len() == 1 {
                    for op in ["remove_duplicate_cells", "assign_incident_cells", "is_connected", "star_of_each_vertex", "repair_neighbor_pointers", "clear_then_repair_neighbors"] {
                        let relevant = match (op, &plan[0]) {
                            ("remove_duplicate_cells", Fault::DuplicateCell(_) | Fault::None) => true,
                            ("assign_incident_cells", Fault::StaleIncident(_) | Fault::WrongIncident(_) | Fault::None | Fault::MissingCellClean(_)) => true,
                            ("is_connected", Fault::MissingCellClean(_) | Fault::CutOffCell(_) | Fault::None | Fault::GlueVertices(..)) => true,
                            ("star_of_each_vertex", Fault::None | Fault::MissingCellClean(_) | Fault::CutOffCell(_)) => true,
                            ("clear_then_repair_neighbors", Fault::None) => true,
                            ("repair_neighbor_pointers", Fault::None | Fault::OneWayNeighbor(..) | Fault::WrongMirrorSlot(..) | Fault::DropNeighborBuffer(_) | Fault::MissingCellClean(_)) => true,
                            _ => false,
                        };
                        if !relevant {
                            continue;
                        }
                        let mut t2 = bad.tds().clone();
                        let g3 = cx.tr.guard(op, || -> (String, i64, Vec<Value>) {
                            match op {
                                "remove_duplicate_cells" => match t2.remove_duplicate_cells() {
                                    Ok(n) => ("Ok".into(), n as i64, vec![]),
                                    Err(_) => ("Err".into(), -1, vec![]),
                                },
                                "assign_incident_cells" => match t2.assign_incident_cells() {
                                    Ok(()) => ("Ok".into(), 0, vec![]),
                                    Err(_) => ("Err".into(), -1, vec![]),
                                },
                                "clear_then_repair_neighbors" => {
                                    t2.clear_all_neighbors();
                                    match delaunay::core::algorithms::incremental_insertion::repair_neighbor_pointers(&mut t2) {
                                        Ok(n) => ("Ok".into(), n as i64, vec![]),
                                        Err(_) => ("Err".into(), -1, vec![]),
                                    }
                                }
                                "is_connected" => ("Ok".into(), i64::from(t2.is_connected()), vec![]),
                                "repair_neighbor_pointers" => match delaunay::core::algorithms::incremental_insertion::repair_neighbor_pointers(&mut t2) {
                                    Ok(n) => ("Ok".into(), n as i64, vec![]),
                                    Err(_) => ("Err".into(), -1, vec![]),
                                },
                                _ => ("Ok".into(), 0, vec![]),
                            }
                        });
                        match g3 {
                            Guarded::Done((kind, n, _)) => {
                                let after = Dt::<K, D>::from_tds_with_topology_guarantee(t2, K::default(), g);
                                let mut stars: Vec<Value> = Vec::new();
                                if op == "star_of_each_vertex" {
                                    for (vk, vv) in after.tds().vertices() {
                                        let mut cs: Vec<i64> = after.tds().find_cells_containing_vertex_by_key(vk).iter().map(|k| cx.tr.ckey_id(after.tds(), *k)).collect();
                                        cs.sort_unstable();
                                        stars.push(json!({"v": cx.tr.vid(vv.uuid()), "cells": cs}));
                                    }
                                }
                                let p2 = project_raw(&mut cx.tr, &after);
                                cx.tr.emit("Maint", 1, json!({"op": op, "pre": post.clone()}), json!({"kind": kind, "n": n, "stars": stars}), Some(p2), false);
                            }
                            Guarded::Panicked(msg) => {
                                cx.tr.emit("Maint", 1, json!({"op": op, "pre": post.clone()}), json!({"kind": "Panic", "msg": msg, "n": -1, "stars": []}), None, true);
                            }
                        }
                    }
                }
            }
            Guarded::Panicked(msg) => {
                cx.tr.emit("Faulted", 1, json!({"faults": applied, "classes": [], "clean": false}), json!({"kind":"Panic","msg":msg}), None, true);
            }
        }
    }
    let _ = TopologyGuarantee::DEFAULT;
}

pub fn drive_faults(cx: &mut Ctx) {
    let per_dim = if cx.thorough { 24 } else { 6 };
    for d in 2..=5usize {
        for i in 0..per_dim {
            let mut r = Rng::new(cx.seed * 1_000_033 + (d * 100_000 + i) as u64);
            if !cx.mine() {
                continue;
            }
            let k = (i / 3) % 2;
            crate::dispatch!(d, k, fault_case(cx, &mut r, i));
        }
    }
}
