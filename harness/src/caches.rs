//! Replay of TLC-generated histories of the cache model (spec/Caches.tla) against the real
//! library, observing the real cache state through the `delaunay_verif` hooks after every step.
//! The resulting trace is validated by spec/Trace_Caches.tla.

use crate::ops::*;
use crate::proj::*;
use delaunay::core::delaunay_triangulation::DelaunayRepairHeuristicConfig;
use delaunay::core::facet::FacetHandle;
use delaunay::core::triangulation_data_structure::Tds;
use delaunay::geometry::algorithms::convex_hull::ConvexHull;
use delaunay::geometry::point::Point;
use delaunay::geometry::traits::coordinate::Coordinate;
use delaunay::triangulation::flips::BistellarFlips;
use serde_json::{Value, json};
use std::collections::HashMap;

/// hull corners (always present) and the interior positions 1..=6 the model talks about
pub fn corners(d: usize) -> Vec<Vec<i64>> {
    if d == 2 {
        vec![vec![0, 0], vec![15, 0], vec![0, 15]]
    } else {
        vec![vec![0, 0, 0], vec![7, 0, 0], vec![0, 7, 0], vec![0, 0, 7]]
    }
}
pub fn position(d: usize, p: usize) -> Vec<i64> {
    if d == 2 {
        [vec![3, 4], vec![7, 2], vec![2, 9], vec![5, 5], vec![1, 1], vec![4, 8]][p - 1].clone()
    } else {
        [vec![1, 1, 1], vec![2, 1, 1], vec![1, 2, 1], vec![1, 1, 2], vec![2, 2, 1], vec![1, 2, 2]][p - 1].clone()
    }
}

struct Obj<K: Kern<D>, const D: usize> {
    dt: Dt<K, D>,
}

fn pos_of(d: usize, m: &[i64]) -> i64 {
    for p in 1..=6 {
        if position(d, p) == m {
            return p as i64;
        }
    }
    0
}

fn observe<K: Kern<D>, const D: usize>(tr: &Tracer, o: &Obj<K, D>) -> Value {
    let dt = &o.dt;
    let mut present: Vec<i64> = Vec::new();
    let mut dup_positions = false;
    for (_, v) in dt.vertices() {
        let (m, _, _, _) = tr.coord_proj(v.point().coords());
        let p = pos_of(D, &m);
        if p > 0 {
            if present.contains(&p) {
                dup_positions = true;
            }
            present.push(p);
        }
    }
    present.sort_unstable();
    let (isome, mut ikeys) = match dt.verif_spatial_index_keys() {
        None => (false, vec![]),
        Some(keys) => {
            let mut ps = Vec::new();
            for k in keys {
                if let Some(v) = dt.tds().get_vertex_by_key(k) {
                    let (m, _, _, _) = tr.coord_proj(v.point().coords());
                    let p = pos_of(D, &m);
                    if p > 0 && !ps.contains(&p) {
                        ps.push(p);
                    }
                }
            }
            (true, ps)
        }
    };
    ikeys.sort_unstable();
    // content fingerprint: cells as sorted position/corner tuples
    let mut cells: Vec<Vec<Vec<i64>>> = dt
        .cells()
        .map(|(_, c)| {
            let mut vs: Vec<Vec<i64>> = c
                .vertices()
                .iter()
                .map(|vk| tr.coord_proj(dt.tds().get_vertex_by_key(*vk).unwrap().point().coords()).0)
                .collect();
            vs.sort();
            vs
        })
        .collect();
    cells.sort();
    let mut h: u64 = 1469598103934665603;
    for c in &cells {
        for v in c {
            for x in v {
                h = (h ^ (*x as u64 + 17)).wrapping_mul(1099511628211);
            }
        }
        h = h.wrapping_mul(31);
    }
    json!({"present": present, "isome": isome, "ikeys": ikeys, "gen": (dt.tds().generation() % (1 << 30)) as i64,
           "fp": (h % (1 << 30)) as i64, "nv": dt.number_of_vertices(), "nc": dt.number_of_cells(),
           "dup_positions": dup_positions,
           "hint": dt.verif_locate_hint().is_some_and(|c| dt.tds().contains_cell(c)),
           "hint_some": dt.verif_locate_hint().is_some()})
}

pub fn run_history<K: Kern<D>, const D: usize>(tr: &mut Tracer, hist: &[Value], uuid_ctr: &mut u64) {
    let mut objs: HashMap<i64, Obj<K, D>> = HashMap::new();
    let mut hull: Option<ConvexHull<K, VData, CData, D>> = None;
    let mut hull_src: i64 = 0; // the slot the hull was taken from (overwriting that slot drops the hull, as in Caches.tla)
    let s = tr.s;
    let mut fresh = || {
        *uuid_ctr += 1;
        *uuid_ctr
    };
    for step in hist {
        let op = step["op"].as_str().unwrap_or("");
        let o = step["o"].as_i64().unwrap_or(1);
        let p = step["p"].as_i64().unwrap_or(0) as usize;
        let mut res = "Ok".to_string();
        let mut extra = json!({});
        let what = format!("cache-op {op}");
        let guarded = tr.guard(&what, || {
            match op {
                "Construct" => {
                    let vs: Vec<_> = corners(D)
                        .iter()
                        .map(|m| VIn::lattice(fresh(), m.clone(), None).vertex::<D>(s))
                        .collect();
                    match Dt::<K, D>::with_kernel(&K::default(), &vs) {
                        Ok(dt) => {
                            objs.insert(o, Obj { dt });
                        }
                        Err(_) => res = "Err".into(),
                    }
                }
                "Insert" | "InsertStats" => {
                    let ob = objs.get_mut(&o).unwrap();
                    let v = VIn::lattice(fresh(), position(D, p), Some(p as i32)).vertex::<D>(s);
                    let r = if op == "Insert" {
                        ob.dt.insert(v).map(|_| ()).map_err(|e| variant(&e))
                    } else {
                        match ob.dt.insert_with_statistics(v) {
                            Ok((delaunay::core::operations::InsertionOutcome::Inserted { .. }, _)) => Ok(()),
                            Ok((delaunay::core::operations::InsertionOutcome::Skipped { error }, _)) => Err(variant(&error)),
                            Err(e) => Err(variant(&e)),
                        }
                    };
                    res = match r {
                        Ok(()) => "Inserted".into(),
                        Err(e) if e == "DuplicateCoordinates" => "Dup".into(),
                        Err(e) => {
                            extra = json!({"err": e});
                            "Err".into()
                        }
                    };
                }
                "Remove" => {
                    let ob = objs.get_mut(&o).unwrap();
                    let target = ob
                        .dt
                        .vertices()
                        .find(|(_, v)| pos_of(D, &tr_home(s, v.point().coords())) == p as i64)
                        .map(|(_, v)| *v);
                    match target {
                        Some(v) => match ob.dt.remove_vertex(&v) {
                            Ok(_) => res = "Ok".into(),
                            Err(_) => res = "Err".into(),
                        },
                        None => res = "Absent".into(),
                    }
                }
                "FlipK1Insert" if objs.get(&o).unwrap().dt.vertices().any(|(_, v)| pos_of(D, &tr_home(s, v.point().coords())) == p as i64) => {
                    // the driver never adds a coordinate duplicate through the Edit API
                    res = "Present".into();
                }
                "FlipK1Insert" => {
                    let ob = objs.get_mut(&o).unwrap();
                    let m = position(D, p);
                    let mut c = [0f64; D];
                    for i in 0..D {
                        c[i] = m[i] as f64 * pow2(s);
                    }
                    let pt = Point::new(c);
                    let loc = delaunay::core::algorithms::locate::locate(ob.dt.tds(), &K::default(), &pt, None);
                    match loc {
                        Ok(delaunay::core::algorithms::locate::LocateResult::InsideCell(ck)) => {
                            let v = VIn::lattice(fresh(), m, Some(p as i32)).vertex::<D>(s);
                            match ob.dt.flip_k1_insert(ck, v) {
                                Ok(_) => res = "Ok".into(),
                                Err(_) => res = "Err".into(),
                            }
                        }
                        _ => res = "Err".into(),
                    }
                }
                "FlipK1Remove" => {
                    let ob = objs.get_mut(&o).unwrap();
                    let target = ob
                        .dt
                        .vertices()
                        .find(|(_, v)| pos_of(D, &tr_home(s, v.point().coords())) == p as i64)
                        .map(|(k, _)| k);
                    match target {
                        Some(k) => match ob.dt.flip_k1_remove(k) {
                            Ok(_) => res = "Ok".into(),
                            Err(_) => res = "Err".into(),
                        },
                        None => res = "Absent".into(),
                    }
                }
                "FlipK2" => {
                    let ob = objs.get_mut(&o).unwrap();
                    let keys: Vec<_> = ob.dt.tds().cell_keys().collect();
                    res = "Err".into();
                    let mut called = false;
                    'outer: for ck in keys.clone() {
                        for i in 0..=(D as u8) {
                            // only flips that keep the complex geometrically valid (probe on a clone)
                            let mut probe = ob.dt.clone();
                            if probe.flip_k2(FacetHandle::new(ck, i)).is_ok() && probe.as_triangulation().is_valid().is_ok() {
                                called = true;
                                if ob.dt.flip_k2(FacetHandle::new(ck, i)).is_ok() {
                                    res = "Ok".into();
                                }
                                break 'outer;
                            }
                        }
                    }
                    if !called {
                        // nothing flippable: still make one real (failing) call, on a boundary facet
                        'b: for ck in keys {
                            let nb: Vec<bool> = ob.dt.tds().get_cell(ck).unwrap().neighbors()
                                .map(|b| b.iter().map(Option::is_none).collect()).unwrap_or_else(|| vec![true; D + 1]);
                            for (i, is_boundary) in nb.iter().enumerate() {
                                if *is_boundary {
                                    if ob.dt.flip_k2(FacetHandle::new(ck, i as u8)).is_ok() {
                                        res = "Ok".into();
                                    }
                                    break 'b;
                                }
                            }
                        }
                    }
                }
                "Repair" => {
                    let ob = objs.get_mut(&o).unwrap();
                    match ob.dt.repair_delaunay_with_flips() {
                        Ok(st) => {
                            res = if st.flips_performed > 0 { "Ok".into() } else { "Noop".into() };
                        }
                        Err(_) => res = "Err".into(),
                    }
                }
                "RepairAdv" => {
                    let ob = objs.get_mut(&o).unwrap();
                    match ob.dt.repair_delaunay_with_flips_advanced(DelaunayRepairHeuristicConfig::default()) {
                        Ok(out) => {
                            res = if out.used_heuristic() {
                                "Rebuilt".into()
                            } else if out.stats.flips_performed > 0 {
                                "Ok".into()
                            } else {
                                "Noop".into()
                            };
                        }
                        Err(_) => res = "Err".into(),
                    }
                }
                "AsTriMut" => {
                    let ob = objs.get_mut(&o).unwrap();
                    let _ = ob.dt.as_triangulation_mut();
                }
                "Clone" => {
                    let o2 = step["o2"].as_i64().unwrap_or(2);
                    let c = objs.get(&o).unwrap().dt.clone();
                    objs.insert(o2, Obj { dt: c });
                    if hull.is_some() && hull_src == o2 {
                        hull = None;
                    }
                }
                "SerDe" => {
                    let o2 = step["o2"].as_i64().unwrap_or(2);
                    let src = &objs.get(&o).unwrap().dt;
                    let js = serde_json::to_string(src.tds()).unwrap();
                    match serde_json::from_str::<Tds<f64, VData, CData, D>>(&js) {
                        Ok(tds) => {
                            let g = src.topology_guarantee();
                            let c = Dt::<K, D>::from_tds_with_topology_guarantee(tds, K::default(), g);
                            objs.insert(o2, Obj { dt: c });
                            if hull.is_some() && hull_src == o2 {
                                hull = None;
                            }
                        }
                        Err(_) => res = "Err".into(),
                    }
                }
                "HullCreate" => {
                    let ob = objs.get(&o).unwrap();
                    match ConvexHull::from_triangulation(ob.dt.as_triangulation()) {
                        Ok(h) => {
                            hull = Some(h);
                            hull_src = o;
                        }
                        Err(_) => res = "Err".into(),
                    }
                }
                "HullQuery" => {
                    let ob = objs.get(&o).unwrap();
                    if let Some(h) = &hull {
                        let tri = ob.dt.as_triangulation();
                        let valid = h.is_valid_for_triangulation(tri);
                        let mut far = [0f64; D];
                        far[0] = 100.0 * pow2(s);
                        far[1] = 100.0 * pow2(s);
                        let outside = h.is_point_outside(&Point::new(far), tri);
                        let mut near = [0f64; D];
                        for i in 0..D {
                            near[i] = 1.0 * pow2(s);
                        }
                        let inside = h.is_point_outside(&Point::new(near), tri);
                        let vis = h.find_visible_facets(&Point::new(far), tri);
                        let val = h.validate(tri);
                        let stale_all = !valid && outside.is_err() && inside.is_err() && vis.is_err() && val.is_err();
                        let fresh_all = valid && outside.is_ok() && inside.is_ok() && vis.is_ok() && val.is_ok();
                        res = if stale_all {
                            "Stale".into()
                        } else if fresh_all {
                            "Fresh".into()
                        } else {
                            "Mixed".into()
                        };
                        extra = json!({"outside_far": outside.unwrap_or(false), "outside_near": inside.unwrap_or(true),
                                       "nfacets": h.number_of_facets()});
                    } else {
                        res = "NoHull".into();
                    }
                }
                _ => res = "Unknown".into(),
            }
        });
        let panicked = matches!(guarded, Guarded::Panicked(_));
        let mut obs = serde_json::Map::new();
        for (k, ob) in &objs {
            obs.insert(k.to_string(), observe(tr, ob));
        }
        let mut st = step.clone();
        st["res"] = json!(res);
        st["extra"] = extra;
        tr.emit("Cache", o as usize, st, json!({"kind": res}), Some(Value::Object(obs)), panicked);
        if panicked {
            return;
        }
    }
}

fn tr_home(s: i32, c: &[f64]) -> Vec<i64> {
    c.iter().map(|x| (x / pow2(s)).round() as i64).collect()
}
