//! vdrive <family> --tier quick|thorough --seed N --part K/N --out FILE [--scale S]
use vharness::drivers::*;
use vharness::drivers2::*;
use vharness::proj::*;

fn main() {
    let a: Vec<String> = std::env::args().collect();
    if a.len() < 2 {
        eprintln!("usage: vdrive <family> [--tier T] [--seed N] [--part K/N] [--out FILE] [--scale S]");
        std::process::exit(2);
    }
    let fam = a[1].clone();
    let mut tier = "quick".to_string();
    let mut seed = 1u64;
    let mut part = (0usize, 1usize);
    let mut out = "trace.ndjson".to_string();
    let mut scale = 0i32;
    let mut hist = String::new();
    let mut dim = 2usize;
    let mut i = 2;
    while i < a.len() {
        match a[i].as_str() {
            "--tier" => { tier = a[i + 1].clone(); i += 2; }
            "--seed" => { seed = a[i + 1].parse().unwrap(); i += 2; }
            "--part" => {
                let p: Vec<usize> = a[i + 1].split('/').map(|x| x.parse().unwrap()).collect();
                part = (p[0], p[1]);
                i += 2;
            }
            "--out" => { out = a[i + 1].clone(); i += 2; }
            "--scale" => { scale = a[i + 1].parse().unwrap(); i += 2; }
            "--hist" => { hist = a[i + 1].clone(); i += 2; }
            "--dim" => { dim = a[i + 1].parse().unwrap(); i += 2; }
            _ => { eprintln!("unknown arg {}", a[i]); std::process::exit(2); }
        }
    }
    let thorough = tier == "thorough";
    let ceiling = if thorough { 120_000 } else { 30_000 };
    let mut cx = Ctx {
        tr: Tracer::new(&out, scale, ceiling),
        rng: Rng::new(seed),
        thorough,
        part_k: part.0,
        part_n: part.1,
        case: 0,
        uuid_ctr: (part.0 as u64) << 32,
        seed,
    };
    match fam.as_str() {
        "construct" => drive_construct(&mut cx),
        "insert" => drive_insert(&mut cx),
        "flips" => drive_flips(&mut cx),
        "remove" => drive_remove(&mut cx),
        "repair" => drive_repair(&mut cx),
        "caches" => drive_caches(&mut cx, &hist, dim),
        "queries" => drive_queries(&mut cx),
        "serde" => drive_serde(&mut cx),
        "toroidal" => drive_toroidal(&mut cx),
        "extreme" => drive_extreme(&mut cx),
        "verdictwalk" => drive_verdictwalk(&mut cx),
        "repairwalk" => drive_repairwalk(&mut cx),
        "failpoints" => drive_failpoints(&mut cx),
        "c07demo" => drive_c07demo(&mut cx),
        "repairtrace" => drive_repairtrace(&mut cx),
        "faults" => vharness::faults::drive_faults(&mut cx),
        "determinism" => drive_determinism(&mut cx, &out),
        "detchild" => drive_detchild(&mut cx.tr, &hist),
        "predicates" => vharness::pure::drive_predicates(&mut cx),
        "orderings" => vharness::pure::drive_orderings(&mut cx),
        "measures" => vharness::pure::drive_measures(&mut cx, &hist),
        "inserttxn" => vharness::txn::drive_inserttxn(&mut cx, &hist),
        "removetxn" => vharness::txn::drive_removetxn(&mut cx, &hist),
        "fliptxn" => vharness::txn::drive_fliptxn(&mut cx, &hist),
        _ => { eprintln!("unknown family {fam}"); std::process::exit(2); }
    }
    cx.tr.flush();
    let counts = serde_json::to_string(&cx.tr.counts).unwrap();
    println!("{{\"family\":\"{fam}\",\"lines\":{},\"counts\":{counts}}}", cx.tr.line);
}
