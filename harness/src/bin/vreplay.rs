//! vreplay <case.ndjson> <out.ndjson>: re-execute the calls of a recorded case against the
//! CURRENT library and write the fresh trace (same event format), so TLC can judge it again.
use delaunay::geometry::kernel::{FastKernel, RobustKernel};
use serde_json::Value;
use vharness::ops::*;
use vharness::proj::*;
use vharness::replay::replay_case;

fn main() {
    let a: Vec<String> = std::env::args().collect();
    if a.len() < 3 {
        eprintln!("usage: vreplay <case.ndjson> <out.ndjson>");
        std::process::exit(2);
    }
    let text = std::fs::read_to_string(&a[1]).expect("read case");
    let evs: Vec<Value> = text.lines().filter(|l| !l.trim().is_empty()).map(|l| serde_json::from_str(l).unwrap()).collect();
    let mut tr = Tracer::new(&a[2], 0, 120_000);
    // dimension / kernel from the first event that names them
    let mut d = 0usize;
    let mut k = "Fast".to_string();
    for e in &evs {
        if let Some(x) = e["args"]["D"].as_u64() {
            d = x as usize;
            k = e["args"]["kernel"].as_str().unwrap_or("Fast").to_string();
            break;
        }
    }
    let _ = (GUARANTEES, 0);
    match (d, k.as_str()) {
        (2, "Fast") => replay_case::<FastKernel<f64>, 2>(&mut tr, &evs),
        (2, _) => replay_case::<RobustKernel<f64>, 2>(&mut tr, &evs),
        (3, "Fast") => replay_case::<FastKernel<f64>, 3>(&mut tr, &evs),
        (3, _) => replay_case::<RobustKernel<f64>, 3>(&mut tr, &evs),
        (4, "Fast") => replay_case::<FastKernel<f64>, 4>(&mut tr, &evs),
        (4, _) => replay_case::<RobustKernel<f64>, 4>(&mut tr, &evs),
        (5, "Fast") => replay_case::<FastKernel<f64>, 5>(&mut tr, &evs),
        (5, _) => replay_case::<RobustKernel<f64>, 5>(&mut tr, &evs),
        _ => {
            eprintln!("cannot determine dimension");
            std::process::exit(2);
        }
    }
    tr.flush();
    println!("replayed {} events -> {} lines", evs.len(), tr.line);
}
