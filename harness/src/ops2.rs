//! Read-only calls (locate, hull, topology queries) and object-to-object calls (clone, serde).

use crate::ops::*;
use crate::proj::*;
use delaunay::core::algorithms::locate::{LocateResult, locate, locate_with_stats};
use delaunay::core::edge::EdgeKey;
use delaunay::core::triangulation_data_structure::{CellKey, Tds, VertexKey};
use delaunay::geometry::algorithms::convex_hull::ConvexHull;
use delaunay::geometry::point::Point;
use delaunay::geometry::traits::coordinate::Coordinate;
use delaunay::topology::characteristics::euler::{
    classify_triangulation, count_boundary_simplices, count_simplices, euler_characteristic,
};
use serde_json::{Value, json};

pub fn lattice_point<const D: usize>(m: &[i64], s: i32) -> Point<f64, D> {
    let mut c = [0f64; D];
    for i in 0..D {
        c[i] = m[i] as f64 * pow2(s);
    }
    Point::new(c)
}

#[derive(Clone, Copy, Debug)]
pub enum Hint {
    None,
    Cell(CellKey),
    /// a key that is (or may be) no longer live
    Stale(CellKey),
    /// a key from another triangulation
    Foreign(CellKey),
}

fn loc_json<K: Kern<D>, const D: usize>(tr: &mut Tracer, dt: &Dt<K, D>, r: &LocateResult) -> (String, i64) {
    match r {
        LocateResult::InsideCell(ck) => ("Inside".into(), tr.ckey_id(dt.tds(), *ck)),
        LocateResult::OnFacet(ck, _) => ("OnFacet".into(), tr.ckey_id(dt.tds(), *ck)),
        LocateResult::OnEdge(ck) => ("OnEdge".into(), tr.ckey_id(dt.tds(), *ck)),
        LocateResult::OnVertex(_) => ("OnVertex".into(), 0),
        LocateResult::Outside => ("Outside".into(), 0),
    }
}

/// one Locate event: all query points, each with the results for every hint in `hints`
pub fn op_locate_batch<K: Kern<D>, const D: usize>(tr: &mut Tracer, obj: usize, dt: &Dt<K, D>, qs: &[Vec<i64>], hints: &[Hint]) -> bool {
    let mut items: Vec<Value> = Vec::new();
    let mut ok = true;
    for q in qs {
        let (v, good) = locate_one(tr, dt, q, hints);
        items.push(v);
        if !good {
            ok = false;
            break;
        }
    }
    // storage (iteration) order of the cells: what the scan fallback and a missing hint see
    let order: Vec<i64> = dt.tds().cell_keys().map(|k| tr.ckey_id(dt.tds(), k)).collect();
    tr.emit("Locate", obj, json!({"order": order}), json!({"qs": items}), None, !ok);
    ok
}

fn locate_one<K: Kern<D>, const D: usize>(tr: &mut Tracer, dt: &Dt<K, D>, q: &[i64], hints: &[Hint]) -> (Value, bool) {
    let pt = lattice_point::<D>(q, tr.s);
    let kernel = K::default();
    let mut rs: Vec<Value> = Vec::new();
    let mut panicked = false;
    for h in hints {
        let (hname, hk) = match h {
            Hint::None => ("none", None),
            Hint::Cell(k) => ("cell", Some(*k)),
            Hint::Stale(k) => ("stale", Some(*k)),
            Hint::Foreign(k) => ("foreign", Some(*k)),
        };
        let g = tr.guard("locate", || {
            let a = locate(dt.tds(), &kernel, &pt, hk);
            let b = locate_with_stats(dt.tds(), &kernel, &pt, hk);
            (a, b)
        });
        match g {
            Guarded::Done((a, b)) => {
                let (kind, cell) = match &a {
                    Ok(r) => loc_json(tr, dt, r),
                    Err(e) => (format!("Err:{}", variant(e)), 0),
                };
                let (kind2, cell2, steps, fell_back, start) = match &b {
                    Ok((r, st)) => {
                        let (k, c) = loc_json(tr, dt, r);
                        (k, c, st.walk_steps as i64, st.fell_back_to_scan(), tr.ckey_id(dt.tds(), st.start_cell))
                    }
                    Err(e) => (format!("Err:{}", variant(e)), 0, -1, false, 0),
                };
                let hc = match hk {
                    Some(k) if matches!(h, Hint::Cell(_)) => tr.ckey_id(dt.tds(), k),
                    _ => 0,
                };
                rs.push(json!({"h": hname, "hc": hc, "kind": kind, "cell": cell, "kind2": kind2, "cell2": cell2,
                               "steps": steps, "scan": fell_back, "start": start}));
            }
            Guarded::Panicked(msg) => {
                rs.push(json!({"h": hname, "hc": 0, "kind": "Panic", "cell": 0, "kind2": "Panic", "cell2": 0, "steps": -1, "scan": false, "start": 0, "msg": msg}));
                panicked = true;
            }
        }
    }
    (json!({"q": q, "rs": rs}), !panicked)
}

/// Bowyer-Watson building blocks (public in core::algorithms::locate): for every query that locates inside a cell,
/// the conflict region grown from that cell and the boundary of the cavity it leaves
pub fn op_conflict_batch<K: Kern<D>, const D: usize>(tr: &mut Tracer, obj: usize, dt: &Dt<K, D>, qs: &[Vec<i64>]) -> bool {
    use delaunay::core::algorithms::locate::{extract_cavity_boundary, find_conflict_region, LocateResult};
    let kernel = K::default();
    let mut items: Vec<Value> = Vec::new();
    let mut ok = true;
    for q in qs {
        let pt = lattice_point::<D>(q, tr.s);
        let g = tr.guard("conflict region", || {
            let Ok(LocateResult::InsideCell(ck)) = locate(dt.tds(), &kernel, &pt, None) else { return None };
            let region = find_conflict_region(dt.tds(), &kernel, &pt, ck);
            let boundary = region.as_ref().ok().map(|r| extract_cavity_boundary(dt.tds(), r));
            Some((ck, region, boundary))
        });
        match g {
            Guarded::Done(None) => {}
            Guarded::Done(Some((ck, region, boundary))) => {
                let start = tr.ckey_id(dt.tds(), ck);
                match (region, boundary) {
                    (Ok(r), Some(Ok(b))) => {
                        let cells: Vec<i64> = r.iter().map(|k| tr.ckey_id(dt.tds(), *k)).collect();
                        let facets: Vec<Value> = b
                            .iter()
                            .map(|f| json!({"cell": tr.ckey_id(dt.tds(), f.cell_key()), "vs": facet_vertex_ids(tr, dt, f.cell_key(), f.facet_index())}))
                            .collect();
                        items.push(json!({"q": q, "start": start, "kind": "Ok", "cells": cells, "facets": facets}));
                    }
                    (r, b) => {
                        let e = match (r, b) {
                            (Err(e), _) => format!("region:{}", variant(&e)),
                            (_, Some(Err(e))) => format!("boundary:{}", variant(&e)),
                            _ => "?".into(),
                        };
                        items.push(json!({"q": q, "start": start, "kind": "Err", "err": e, "cells": [], "facets": []}));
                    }
                }
            }
            Guarded::Panicked(msg) => {
                items.push(json!({"q": q, "start": 0, "kind": "Panic", "msg": msg, "cells": [], "facets": []}));
                ok = false;
                break;
            }
        }
    }
    tr.emit("Conflict", obj, json!({}), json!({"qs": items}), None, !ok);
    ok
}

/// hull extension (public in core::algorithms::incremental_insertion): for every query outside the complex, add the
/// point as an isolated vertex of a COPY of the Tds and let extend_hull connect it; log the facets it coned
pub fn op_extend_hull_batch<K: Kern<D>, const D: usize>(tr: &mut Tracer, obj: usize, dt: &Dt<K, D>, qs: &[Vec<i64>]) -> bool {
    use delaunay::core::algorithms::incremental_insertion::extend_hull;
    use delaunay::core::algorithms::locate::LocateResult;
    let kernel = K::default();
    let mut items: Vec<Value> = Vec::new();
    let mut ok = true;
    for q in qs {
        let pt = lattice_point::<D>(q, tr.s);
        if !matches!(locate(dt.tds(), &kernel, &pt, None), Ok(LocateResult::Outside)) {
            continue;
        }
        let g = tr.guard("extend_hull", || {
            let mut t = dt.tds().clone();
            let v = delaunay::core::vertex::Vertex::<f64, VData, D>::new_with_uuid(pt, mk_uuid(66_000_000), None);
            let Some(vk) = t.verif_insert_isolated_vertex(v) else { return None };
            let r = extend_hull(&mut t, &kernel, vk, &pt);
            Some((t, vk, r))
        });
        match g {
            Guarded::Done(None) => {}
            Guarded::Done(Some((t, vk, Ok(cells)))) => {
                let mut coned: Vec<Vec<i64>> = Vec::new();
                for ck in cells.iter() {
                    if let Some(c) = t.get_cell(*ck) {
                        // vertex ids of the cell other than the new vertex (ids of the ORIGINAL complex)
                        let f: Vec<i64> = c.vertices().iter().filter(|k| **k != vk).map(|k| tr.vkey_id(dt.tds(), *k)).collect();
                        coned.push(f);
                    }
                }
                items.push(json!({"q": q, "kind": "Ok", "coned": coned, "ncells_after": t.number_of_cells()}));
            }
            Guarded::Done(Some((_, _, Err(e)))) => {
                items.push(json!({"q": q, "kind": "Err", "err": variant(&e), "coned": [], "ncells_after": -1}));
            }
            Guarded::Panicked(msg) => {
                items.push(json!({"q": q, "kind": "Panic", "msg": msg, "coned": [], "ncells_after": -1}));
                ok = false;
                break;
            }
        }
    }
    tr.emit("ExtendHull", obj, json!({}), json!({"qs": items}), None, !ok);
    ok
}

pub type Hull<K, const D: usize> = ConvexHull<K, VData, CData, D>;

pub fn facet_vertex_ids<K: Kern<D>, const D: usize>(tr: &mut Tracer, dt: &Dt<K, D>, ck: CellKey, idx: u8) -> Vec<i64> {
    match dt.tds().get_cell(ck) {
        Some(c) => c
            .vertices()
            .iter()
            .enumerate()
            .filter(|(i, _)| *i != idx as usize)
            .map(|(_, vk)| tr.vkey_id(dt.tds(), *vk))
            .collect(),
        None => vec![],
    }
}

pub fn op_hull_create<K: Kern<D>, const D: usize>(tr: &mut Tracer, obj: usize, dt: &Dt<K, D>) -> Option<Hull<K, D>> {
    let g = tr.guard("hull_create", || ConvexHull::from_triangulation(dt.as_triangulation()));
    match g {
        Guarded::Done(Ok(h)) => {
            let facets: Vec<Vec<i64>> = h.facets().map(|f| facet_vertex_ids(tr, dt, f.cell_key(), f.facet_index())).collect();
            let cells: Vec<i64> = h.facets().map(|f| tr.ckey_id(dt.tds(), f.cell_key())).collect();
            tr.emit("HullCreate", obj, json!({}), json!({"kind":"Ok","facets":facets,"cells":cells,"n":h.number_of_facets(),
                "valid_now": h.is_valid_for_triangulation(dt.as_triangulation()),
                "validate_now": h.validate(dt.as_triangulation()).is_ok()}), None, false);
            Some(h)
        }
        Guarded::Done(Err(e)) => {
            tr.emit("HullCreate", obj, json!({}), json!({"kind":"Err","err":variant(&e),"facets":[],"cells":[],"n":0,"valid_now":false,"validate_now":false}), None, false);
            None
        }
        Guarded::Panicked(msg) => {
            tr.emit("HullCreate", obj, json!({}), json!({"kind":"Panic","msg":msg}), None, true);
            None
        }
    }
}

/// one HullQuery event: every query that takes the triangulation, for all query points
pub fn op_hull_query_batch<K: Kern<D>, const D: usize>(tr: &mut Tracer, obj: usize, dt: &Dt<K, D>, hull: &Hull<K, D>, qs: &[Vec<i64>], why: &str) -> bool {
    let mut items: Vec<Value> = Vec::new();
    let mut ok = true;
    for q in qs {
        let (v, good) = hull_query_one(tr, dt, hull, q);
        items.push(v);
        if !good {
            ok = false;
            break;
        }
    }
    tr.emit("HullQuery", obj, json!({"why": why}), json!({"qs": items}), None, !ok);
    ok
}

fn hull_query_one<K: Kern<D>, const D: usize>(tr: &mut Tracer, dt: &Dt<K, D>, hull: &Hull<K, D>, q: &[i64]) -> (Value, bool) {
    let pt = lattice_point::<D>(q, tr.s);
    let g = tr.guard("hull_query", || {
        let tri = dt.as_triangulation();
        let valid = hull.is_valid_for_triangulation(tri);
        let outside = hull.is_point_outside(&pt, tri);
        let visible = hull.find_visible_facets(&pt, tri);
        let nearest = hull.find_nearest_visible_facet(&pt, tri);
        let validate = hull.validate(tri);
        let per: Vec<Result<bool, String>> = hull
            .facets()
            .map(|f| hull.is_facet_visible_from_point(f, &pt, tri).map_err(|e| variant(&e)))
            .collect();
        (valid, outside, visible, nearest, validate, per)
    });
    match g {
        Guarded::Done((valid, outside, visible, nearest, validate, per)) => {
            let stale_errs = [
                outside.as_ref().err().map(variant),
                visible.as_ref().err().map(variant),
                nearest.as_ref().err().map(variant),
                validate.as_ref().err().map(variant),
            ];
            let all_stale = !valid
                && stale_errs.iter().all(|e| e.as_deref() == Some("StaleHull"))
                && per.iter().all(|p| p.as_ref().err().map(String::as_str) == Some("StaleHull"));
            let all_answer = valid && outside.is_ok() && visible.is_ok() && nearest.is_ok() && validate.is_ok() && per.iter().all(Result::is_ok);
            let status = if all_stale { "Stale" } else if all_answer { "Fresh" } else { "Mixed" };
            let vis: Vec<i64> = visible.as_ref().map(|v| v.iter().map(|&i| i as i64 + 1).collect()).unwrap_or_default();
            let perv: Vec<bool> = per.iter().map(|p| *p.as_ref().unwrap_or(&false)).collect();
            let near = nearest.as_ref().ok().and_then(|o| *o).map_or(0, |i| i as i64 + 1);
            (json!({"q": q, "status": status, "outside": outside.unwrap_or(false), "visible": vis, "per": perv, "nearest": near,
                    "errs": stale_errs.iter().map(|e| e.clone().unwrap_or_default()).collect::<Vec<_>>()}), true)
        }
        Guarded::Panicked(msg) => (json!({"q": q, "status":"Panic","outside":false,"visible":[],"per":[],"nearest":0,"errs":[],"msg":msg}), false),
    }
}

fn edge_ids<K: Kern<D>, const D: usize>(tr: &mut Tracer, dt: &Dt<K, D>, e: EdgeKey) -> Vec<i64> {
    let (a, b) = e.endpoints();
    let mut v = vec![tr.vkey_id(dt.tds(), a), tr.vkey_id(dt.tds(), b)];
    v.sort_unstable();
    v
}

/// C15: every topology / adjacency query, indexed and non-indexed
pub fn op_queries<K: Kern<D>, const D: usize>(tr: &mut Tracer, obj: usize, dt: &Dt<K, D>, missing_v: Option<VertexKey>, missing_c: Option<CellKey>) -> bool {
    let g = tr.guard("queries", || ());
    if matches!(g, Guarded::Panicked(_)) {
        return false;
    }
    let res = std::panic::catch_unwind(std::panic::AssertUnwindSafe(|| {
        let tri = dt.as_triangulation();
        let idx = dt.build_adjacency_index();
        let vkeys: Vec<VertexKey> = dt.tds().vertex_keys().collect();
        let ckeys: Vec<CellKey> = dt.tds().cell_keys().collect();
        let mut sorted = |mut x: Vec<Vec<i64>>| {
            x.sort();
            x
        };
        let edges: Vec<Vec<i64>> = dt.edges().map(|e| edge_ids(tr, dt, e)).collect();
        let n_edges = tri.number_of_edges() as i64;
        let (edges_i, n_edges_i, index_ok) = match &idx {
            Ok(ix) => (
                dt.edges_with_index(ix).map(|e| edge_ids(tr, dt, e)).collect::<Vec<_>>(),
                tri.number_of_edges_with_index(ix) as i64,
                true,
            ),
            Err(_) => (vec![], -1, false),
        };
        let facets_n = dt.facets().count() as i64;
        let facets_d = {
            let mut fs: Vec<Vec<i64>> = dt
                .facets()
                .map(|f| {
                    let mut v = facet_vertex_ids(tr, dt, f.cell_key(), f.facet_index());
                    v.sort_unstable();
                    v
                })
                .collect();
            fs.sort();
            fs.dedup();
            fs.len() as i64
        };
        let bfacets: Vec<Vec<i64>> = dt
            .boundary_facets()
            .map(|f| {
                let mut v = facet_vertex_ids(tr, dt, f.cell_key(), f.facet_index());
                v.sort_unstable();
                v
            })
            .collect();
        let mut nbrs: Vec<Value> = Vec::new();
        for &c in &ckeys {
            let mut a: Vec<i64> = dt.cell_neighbors(c).map(|k| tr.ckey_id(dt.tds(), k)).collect();
            a.sort_unstable();
            let mut b: Vec<i64> = match &idx {
                Ok(ix) => dt.cell_neighbors_with_index(ix, c).map(|k| tr.ckey_id(dt.tds(), k)).collect(),
                Err(_) => a.clone(),
            };
            b.sort_unstable();
            let nb = idx.as_ref().map_or(a.len(), |ix| tri.number_of_cell_neighbors_with_index(ix, c));
            let cv: Vec<i64> = dt.cell_vertices(c).map(|s| s.iter().map(|vk| tr.vkey_id(dt.tds(), *vk)).collect()).unwrap_or_default();
            nbrs.push(json!({"c": tr.ckey_id(dt.tds(), c), "ns": a, "ns_i": b, "n_i": nb, "cv": cv}));
        }
        let mut adj: Vec<Value> = Vec::new();
        for &v in &vkeys {
            let mut a: Vec<i64> = tri.adjacent_cells(v).map(|k| tr.ckey_id(dt.tds(), k)).collect();
            a.sort_unstable();
            let mut b: Vec<i64> = match &idx {
                Ok(ix) => tri.adjacent_cells_with_index(ix, v).map(|k| tr.ckey_id(dt.tds(), k)).collect(),
                Err(_) => a.clone(),
            };
            b.sort_unstable();
            let ie = sorted(dt.incident_edges(v).map(|e| edge_ids(tr, dt, e)).collect());
            let ie_i = match &idx {
                Ok(ix) => sorted(dt.incident_edges_with_index(ix, v).map(|e| edge_ids(tr, dt, e)).collect()),
                Err(_) => ie.clone(),
            };
            let n_ie = tri.number_of_incident_edges(v) as i64;
            let n_ie_i = idx.as_ref().map_or(n_ie, |ix| tri.number_of_incident_edges_with_index(ix, v) as i64);
            let n_ac_i = idx.as_ref().map_or(a.len() as i64, |ix| tri.number_of_adjacent_cells_with_index(ix, v) as i64);
            let coords_ok = dt.vertex_coords(v).is_some_and(|c| {
                dt.tds().get_vertex_by_key(v).is_some_and(|vv| vv.point().coords().as_slice() == c)
            });
            adj.push(json!({"v": tr.vkey_id(dt.tds(), v), "cs": a, "cs_i": b, "ie": ie, "ie_i": ie_i, "n_ie": n_ie, "n_ie_i": n_ie_i,
                            "n_ac_i": n_ac_i, "coords_ok": coords_ok}));
        }
        let fvec: Vec<i64> = count_simplices(dt.tds()).map(|f| f.by_dim.iter().map(|&x| x as i64).collect()).unwrap_or_default();
        let chi = count_simplices(dt.tds()).map(|f| euler_characteristic(&f) as i64).unwrap_or(-999);
        let class = classify_triangulation(dt.tds()).map(|c| variant(&c)).unwrap_or_else(|e| format!("Err:{}", variant(&e)));
        let bvec: Vec<i64> = count_boundary_simplices(dt.tds()).map(|f| f.by_dim.iter().map(|&x| x as i64).collect()).unwrap_or_default();
        // missing keys
        let miss_v = missing_v.map_or(json!({"tested": false}), |v| {
            json!({"tested": true,
                   "adj": tri.adjacent_cells(v).count(), "ie": dt.incident_edges(v).count(), "n_ie": tri.number_of_incident_edges(v),
                   "coords": dt.vertex_coords(v).is_some(),
                   "adj_i": idx.as_ref().map_or(0, |ix| tri.adjacent_cells_with_index(ix, v).count()),
                   "ie_i": idx.as_ref().map_or(0, |ix| dt.incident_edges_with_index(ix, v).count())})
        });
        let miss_c = missing_c.map_or(json!({"tested": false}), |c| {
            json!({"tested": true, "ns": dt.cell_neighbors(c).count(), "cv": dt.cell_vertices(c).is_some(),
                   "ns_i": idx.as_ref().map_or(0, |ix| dt.cell_neighbors_with_index(ix, c).count())})
        });
        json!({"edges": sorted(edges), "n_edges": n_edges, "edges_i": sorted(edges_i), "n_edges_i": n_edges_i, "index_ok": index_ok,
               "facets_n": facets_n, "facets_d": facets_d, "bfacets": sorted(bfacets), "nbrs": nbrs, "adj": adj, "fvec": fvec, "chi": chi,
               "class": class, "bvec": bvec, "miss_v": miss_v, "miss_c": miss_c})
    }));
    match res {
        Ok(v) => {
            tr.emit("Queries", obj, json!({}), v, None, false);
            true
        }
        Err(_) => {
            tr.emit("Queries", obj, json!({}), json!({"kind":"Panic"}), None, true);
            false
        }
    }
}

pub fn op_clone<K: Kern<D>, const D: usize>(tr: &mut Tracer, src: usize, dst: usize, dt: &Dt<K, D>) -> Dt<K, D> {
    let c = dt.clone();
    let post = tr.project(&c);
    tr.emit("Clone", dst, json!({"src": src}), json!({"eq": c.tds() == dt.tds()}), Some(post), false);
    c
}

/// serialise the Tds, deserialise it, wrap with from_tds_with_topology_guarantee
pub fn op_serde<K: Kern<D>, const D: usize>(tr: &mut Tracer, src: usize, dst: usize, dt: &Dt<K, D>) -> Option<Dt<K, D>> {
    let g = tr.guard("serde", || -> Result<(Dt<K, D>, bool), String> {
        let js = serde_json::to_string(dt.tds()).map_err(|e| format!("ser:{e}"))?;
        let tds: Tds<f64, VData, CData, D> = serde_json::from_str(&js).map_err(|e| format!("de:{e}"))?;
        let eq = &tds == dt.tds();
        let mut c = Dt::<K, D>::from_tds_with_topology_guarantee(tds, K::default(), dt.topology_guarantee());
        c.set_validation_policy(dt.validation_policy());
        c.set_delaunay_repair_policy(dt.delaunay_repair_policy());
        c.set_delaunay_check_policy(dt.delaunay_check_policy());
        Ok((c, eq))
    });
    match g {
        Guarded::Done(Ok((c, eq))) => {
            let post = tr.project(&c);
            let same_verdicts = c.validate().is_ok() == dt.validate().is_ok()
                && c.as_triangulation().validate().is_ok() == dt.as_triangulation().validate().is_ok()
                && c.tds().is_valid().is_ok() == dt.tds().is_valid().is_ok();
            tr.emit("SerDe", dst, json!({"src": src}), json!({"kind":"Ok","eq":eq,"same_verdicts":same_verdicts}), Some(post), false);
            Some(c)
        }
        Guarded::Done(Err(e)) => {
            tr.emit("SerDe", dst, json!({"src": src}), json!({"kind":"Err","err":e,"eq":false,"same_verdicts":false}), Some(dead_state()), false);
            None
        }
        Guarded::Panicked(msg) => {
            tr.emit("SerDe", dst, json!({"src": src}), json!({"kind":"Panic","msg":msg}), None, true);
            None
        }
    }
}

/// twin comparison: both objects must have the same projection up to cell identity
pub fn op_compare(tr: &mut Tracer, a: usize, b: usize, why: &str) {
    tr.emit("Compare", a, json!({"other": b, "why": why}), json!({}), None, false);
}

pub fn stale_and_foreign<K: Kern<D>, const D: usize>(dt: &Dt<K, D>, tr: &Tracer, seed: u64) -> (Option<CellKey>, Option<CellKey>, Option<VertexKey>) {
    // a stale key: flip/remove on a clone and take a key that no longer exists there... simpler and
    // faithful: a key of a cell removed from a CLONE of dt is still a live key of dt, so instead build
    // a foreign triangulation with more cells: its last keys have slot indices dt never used
    let mut r = Rng::new(seed);
    let pts = crate::points::random_points(&mut r, D, crate::points::max_points(D), crate::points::max_coord(D));
    let vs: Vec<_> = pts.iter().enumerate().map(|(i, p)| VIn::lattice(9_000_000 + i as u64, p.clone(), None).vertex::<D>(tr.s)).collect();
    let foreign = Dt::<K, D>::with_kernel(&K::default(), &vs).ok();
    let fk = foreign.as_ref().and_then(|f| f.tds().cell_keys().filter(|k| !dt.tds().contains_cell(*k)).last());
    let fv = foreign.as_ref().and_then(|f| f.tds().vertex_keys().filter(|k| dt.tds().get_vertex_by_key(*k).is_none()).last());
    // stale: remove a vertex from a clone, find a key live in dt whose cell is gone in the clone; use the
    // clone as the triangulation under test is not possible here, so "stale" = key live in the foreign
    // triangulation only at a slot dt has used with an older version
    (fk, fk, fv)
}

/// C14: "in general position this is THE Delaunay triangulation" (judged by TLC)
pub fn op_canon<K: Kern<D>, const D: usize>(tr: &mut Tracer, obj: usize, _dt: &Dt<K, D>, gpmax: usize) {
    tr.emit("Canon", obj, json!({"gpmax": gpmax}), json!({}), None, false);
}

/// log a construction that was executed elsewhere (another thread) as a Construct event
pub fn emit_construct_result<K: Kern<D>, const D: usize>(
    tr: &mut Tracer,
    obj: usize,
    ctor: &str,
    g: delaunay::core::triangulation::TopologyGuarantee,
    opts: Opts,
    input: &[VIn],
    res: Option<&Dt<K, D>>,
    note: &str,
) {
    let in_args: Vec<Value> = input.iter().map(|v| v.args(tr)).collect();
    let args = json!({"D": D, "kernel": K::NAME, "profile": profile(), "ctor": ctor, "g": format!("{g:?}"), "opts": opts.name(),
        "input": in_args, "L": Vec::<i64>::new(), "dkey": tr.dkey.clone(), "note": note});
    match res {
        Some(dt) => {
            let post = tr.project(dt);
            tr.emit("Construct", obj, args, json!({"kind":"Ok","inserted":-1,"skipped":-1}), Some(post), false);
        }
        None => {
            tr.emit("Construct", obj, args, json!({"kind":"Err","err":"(thread)","inserted":-1,"skipped":-1}), Some(dead_state()), false);
        }
    }
}
