//! Conformance harness binding spec/*.tla to the real `delaunay` crate.
#![allow(clippy::all)]
pub mod caches;
pub mod drivers;
pub mod drivers2;
pub mod faults;
pub mod points;
pub mod ops;
pub mod ops2;
pub mod proj;
pub mod pure;
pub mod replay;
pub mod txn;
