//! Conformance harness binding spec/*.tla to the real `delaunay` crate.
#![allow(clippy::all)]
pub mod caches;
pub mod drivers;
pub mod points;
pub mod ops;
pub mod proj;
pub mod replay;
