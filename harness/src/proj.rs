//! THE projection: real library object -> abstract state of `spec/DelaunayAPI.tla`,
//! plus the ndjson trace writer, the panic guard and the watchdog.
//!
//! The projection reads the object only through its public API.

use delaunay::core::delaunay_triangulation::{
    DelaunayCheckPolicy, DelaunayRepairPolicy, DelaunayTriangulation,
};
use delaunay::core::triangulation_data_structure::{CellKey, Tds, VertexKey};
use delaunay::core::vertex::Vertex;
use delaunay::geometry::kernel::Kernel;
use delaunay::geometry::point::Point;
use delaunay::geometry::traits::coordinate::Coordinate;
use serde_json::{Value, json};
use std::collections::HashMap;
use std::fs::File;
use std::io::{BufWriter, Write};
use std::panic::{AssertUnwindSafe, catch_unwind};
use std::sync::atomic::{AtomicI64, AtomicU64, Ordering};
use std::sync::{Arc, Mutex};
use std::time::{Duration, SystemTime, UNIX_EPOCH};
use uuid::Uuid;

pub type VData = i32;
pub type CData = i32;
pub type Dt<K, const D: usize> = DelaunayTriangulation<K, VData, CData, D>;

/// Kernels the harness drives: any kernel over f64.
pub trait Kern<const D: usize>: Kernel<D, Scalar = f64> + Send + 'static {
    const NAME: &'static str;
}
impl<const D: usize> Kern<D> for delaunay::geometry::kernel::FastKernel<f64> {
    const NAME: &'static str = "Fast";
}
impl<const D: usize> Kern<D> for delaunay::geometry::kernel::RobustKernel<f64> {
    const NAME: &'static str = "Robust";
}

// ---------------------------------------------------------------------------------------
// deterministic PRNG (splitmix64) - every random choice of every driver comes from here
// ---------------------------------------------------------------------------------------
#[derive(Clone)]
pub struct Rng(pub u64);
impl Rng {
    pub fn new(seed: u64) -> Self {
        Rng(seed.wrapping_mul(0x9E37_79B9_7F4A_7C15) ^ 0xD1B5_4A32_D192_ED03)
    }
    pub fn next(&mut self) -> u64 {
        self.0 = self.0.wrapping_add(0x9E37_79B9_7F4A_7C15);
        let mut z = self.0;
        z = (z ^ (z >> 30)).wrapping_mul(0xBF58_476D_1CE4_E5B9);
        z = (z ^ (z >> 27)).wrapping_mul(0x94D0_49BB_1331_11EB);
        z ^ (z >> 31)
    }
    pub fn below(&mut self, n: usize) -> usize {
        if n == 0 { 0 } else { (self.next() % n as u64) as usize }
    }
    pub fn range(&mut self, lo: i64, hi: i64) -> i64 {
        lo + (self.next() % ((hi - lo + 1) as u64)) as i64
    }
    pub fn chance(&mut self, num: u64, den: u64) -> bool {
        self.next() % den < num
    }
    pub fn pick<'a, T>(&mut self, xs: &'a [T]) -> &'a T {
        &xs[self.below(xs.len())]
    }
    pub fn shuffle<T>(&mut self, xs: &mut [T]) {
        for i in (1..xs.len()).rev() {
            let j = self.below(i + 1);
            xs.swap(i, j);
        }
    }
}

/// deterministic version-4 UUID number `n`
pub fn mk_uuid(n: u64) -> Uuid {
    let mut r = Rng::new(n ^ 0x5EED_0000_0000);
    let a = r.next().to_le_bytes();
    let b = r.next().to_le_bytes();
    let mut bytes = [0u8; 16];
    bytes[..8].copy_from_slice(&a);
    bytes[8..].copy_from_slice(&b);
    uuid::Builder::from_random_bytes(bytes).into_uuid()
}

/// marker value for `off`: write zero coordinates as negative zero
pub const NEG_ZERO_MARK: f64 = -7.25e-301;

pub fn pow2(s: i32) -> f64 {
    2f64.powi(s)
}

/// lattice vertex: coordinates m * 2^s (+ optional off-lattice displacement)
pub fn mk_vertex<const D: usize>(
    uuid: Uuid,
    m: &[i64],
    s: i32,
    off: f64,
    data: Option<VData>,
) -> Vertex<f64, VData, D> {
    let mut c = [0f64; D];
    for i in 0..D {
        c[i] = (m[i] as f64) * pow2(s);
    }
    // `off` = NEG_ZERO_MARK: every zero coordinate is written as -0.0 (same value, other bit pattern)
    let off = if off == NEG_ZERO_MARK {
        for x in c.iter_mut() {
            if *x == 0.0 {
                *x = -0.0;
            }
        }
        0.0
    } else {
        off
    };
    if off != 0.0 {
        c[0] += off;
    }
    Vertex::new_with_uuid(Point::new(c), uuid, data)
}

// ---------------------------------------------------------------------------------------
// watchdog: a call that does not return within the ceiling is logged as a timeout event
// and the process exits with status 3 (the trace then ends in an event no action accepts)
// ---------------------------------------------------------------------------------------
static DEADLINE_MS: AtomicI64 = AtomicI64::new(0);
static CALLS: AtomicU64 = AtomicU64::new(0);

fn now_ms() -> i64 {
    SystemTime::now().duration_since(UNIX_EPOCH).unwrap().as_millis() as i64
}

pub struct Tracer {
    w: Arc<Mutex<BufWriter<File>>>,
    vtab: HashMap<Uuid, i64>,
    ctab: HashMap<Uuid, i64>,
    pub line: usize,
    pub s: i32,
    pub tag: String,
    /// determinism key attached to Construct events (C14); empty = not part of a determinism test
    pub dkey: String,
    pub ceiling_ms: i64,
    last_call: Arc<Mutex<String>>,
    pub counts: HashMap<String, u64>,
}

pub enum Guarded<T> {
    Done(T),
    Panicked(String),
}

impl Tracer {
    pub fn new(path: &str, s: i32, ceiling_ms: i64) -> Self {
        let f = File::create(path).expect("cannot create trace file");
        let w = Arc::new(Mutex::new(BufWriter::new(f)));
        let last_call = Arc::new(Mutex::new(String::new()));
        std::panic::set_hook(Box::new(|_| {}));
        {
            let w = Arc::clone(&w);
            let lc = Arc::clone(&last_call);
            std::thread::spawn(move || {
                loop {
                    std::thread::sleep(Duration::from_millis(50));
                    let d = DEADLINE_MS.load(Ordering::SeqCst);
                    if d != 0 && now_ms() > d {
                        let what = lc.lock().map(|g| g.clone()).unwrap_or_default();
                        let ev = json!({"ev":"Timeout","obj":0,"tag":what,"panic":false,"timeout":true});
                        if let Ok(mut g) = w.lock() {
                            let _ = writeln!(g, "{ev}");
                            let _ = g.flush();
                        }
                        std::process::exit(3);
                    }
                }
            });
        }
        Tracer {
            w,
            vtab: HashMap::new(),
            ctab: HashMap::new(),
            line: 0,
            s,
            tag: String::new(),
            dkey: String::new(),
            ceiling_ms,
            last_call,
            counts: HashMap::new(),
        }
    }

    /// run one library call under catch_unwind and the watchdog
    pub fn guard<T>(&mut self, what: &str, f: impl FnOnce() -> T) -> Guarded<T> {
        if let Ok(mut g) = self.last_call.lock() {
            *g = format!("{} :: {}", self.tag, what);
        }
        CALLS.fetch_add(1, Ordering::Relaxed);
        DEADLINE_MS.store(now_ms() + self.ceiling_ms, Ordering::SeqCst);
        let r = catch_unwind(AssertUnwindSafe(f));
        DEADLINE_MS.store(0, Ordering::SeqCst);
        match r {
            Ok(v) => Guarded::Done(v),
            Err(e) => {
                let msg = if let Some(s) = e.downcast_ref::<&str>() {
                    (*s).to_string()
                } else if let Some(s) = e.downcast_ref::<String>() {
                    s.clone()
                } else {
                    "panic".to_string()
                };
                Guarded::Panicked(msg.chars().take(200).collect())
            }
        }
    }

    pub fn vid(&mut self, u: Uuid) -> i64 {
        let n = self.vtab.len() as i64 + 1;
        *self.vtab.entry(u).or_insert(n)
    }
    pub fn cid(&mut self, u: Uuid) -> i64 {
        let n = self.ctab.len() as i64 + 1;
        *self.ctab.entry(u).or_insert(n)
    }
    /// forget the id tables (ids restart at 1): used at Reset so ids stay small
    pub fn reset_ids(&mut self) {
        self.vtab.clear();
        self.ctab.clear();
    }

    pub fn vkey_id<T, U, V, const D: usize>(&mut self, tds: &Tds<T, U, V, D>, k: VertexKey) -> i64
    where
        U: delaunay::core::traits::data_type::DataType,
        V: delaunay::core::traits::data_type::DataType,
        T: delaunay::geometry::traits::coordinate::CoordinateScalar,
    {
        match tds.get_vertex_by_key(k) {
            Some(v) => self.vid(v.uuid()),
            None => 0,
        }
    }
    pub fn ckey_id<T, U, V, const D: usize>(&mut self, tds: &Tds<T, U, V, D>, k: CellKey) -> i64
    where
        U: delaunay::core::traits::data_type::DataType,
        V: delaunay::core::traits::data_type::DataType,
        T: delaunay::geometry::traits::coordinate::CoordinateScalar,
    {
        match tds.get_cell(k) {
            Some(c) => self.cid(c.uuid()),
            None => 999_999,
        }
    }

    /// lattice home, perturbation flags and bit hash of stored coordinates
    pub fn coord_proj(&self, c: &[f64]) -> (Vec<i64>, bool, bool, i64) {
        let unit = pow2(self.s);
        let mut m = Vec::with_capacity(c.len());
        let mut pert = false;
        let mut dok = true;
        let mut h: u64 = 0xcbf2_9ce4_8422_2325;
        for &x in c {
            let q = (x / unit).round();
            let back = q * unit;
            if back != x {
                pert = true;
                if !((x - back).abs() <= 1e-5 * unit) {
                    dok = false;
                }
            }
            let qi = if q.is_finite() && q.abs() < 1e9 { q as i64 } else { 0 };
            if !(q.is_finite() && q.abs() < 1e9) {
                pert = true;
                dok = false;
            }
            m.push(qi);
            // the exact bit pattern, sign of zero included (C13: "coordinate bits")
            let bits = x.to_bits();
            // splitmix-style avalanche of every coordinate's bit pattern
            let mut z = bits.wrapping_add(0x9E37_79B9_7F4A_7C15).wrapping_add(h.rotate_left(17));
            z = (z ^ (z >> 30)).wrapping_mul(0xBF58_476D_1CE4_E5B9);
            z = (z ^ (z >> 27)).wrapping_mul(0x94D0_49BB_1331_11EB);
            h = z ^ (z >> 31);
        }
        (m, pert, dok, (h >> 34) as i64)
    }

    pub fn project_tds<U2, V2, const D: usize>(
        &mut self,
        tds: &Tds<f64, U2, V2, D>,
        vdata: impl Fn(&Vertex<f64, U2, D>) -> i64,
        cdata: impl Fn(&delaunay::core::cell::Cell<f64, U2, V2, D>) -> i64,
    ) -> (Vec<Value>, Vec<Value>)
    where
        U2: delaunay::core::traits::data_type::DataType,
        V2: delaunay::core::traits::data_type::DataType,
    {
        let mut verts: Vec<(i64, Value)> = Vec::new();
        for (_k, v) in tds.vertices() {
            let id = self.vid(v.uuid());
            let (m, pert, dok, h) = self.coord_proj(v.point().coords());
            let inc = match v.incident_cell {
                Some(ck) => self.ckey_id(tds, ck),
                None => 0,
            };
            verts.push((
                id,
                json!({"id":id,"m":m,"h":h,"data":vdata(v),"pert":pert,"dok":dok,"inc":inc}),
            ));
        }
        verts.sort_by_key(|x| x.0);
        let mut cells: Vec<(i64, Value)> = Vec::new();
        for (_k, c) in tds.cells() {
            let id = self.cid(c.uuid());
            let vs: Vec<i64> = c.vertices().iter().map(|&vk| self.vkey_id(tds, vk)).collect();
            let nb: Vec<i64> = match c.neighbors() {
                Some(buf) => buf
                    .iter()
                    .map(|o| match o {
                        Some(ck) => self.ckey_id(tds, *ck),
                        None => 0,
                    })
                    .collect(),
                None => vec![0; D + 1],
            };
            let mut rec = json!({"id":id,"vs":vs,"nb":nb,"data":cdata(c)});
            if let Some(offs) = c.periodic_vertex_offsets() {
                rec["off"] = json!(offs.iter().map(|o| o.iter().map(|x| i64::from(*x)).collect::<Vec<_>>()).collect::<Vec<_>>());
            }
            cells.push((id, rec));
        }
        cells.sort_by_key(|x| x.0);
        (
            verts.into_iter().map(|x| x.1).collect(),
            cells.into_iter().map(|x| x.1).collect(),
        )
    }

    pub fn project<K: Kern<D>, const D: usize>(&mut self, dt: &Dt<K, D>) -> Value {
        let tds = dt.tds();
        let (verts, cells) = self.project_tds(
            tds,
            |v| v.data.map_or(-1, i64::from),
            |c| c.data.map_or(-1, i64::from),
        );
        let periods = periods_of(dt);
        let mut verts = verts;
        if !periods.is_empty() {
            use delaunay::topology::traits::topological_space::TopologicalSpace;
            let mut dom = [0f64; D];
            dom.copy_from_slice(&periods);
            let space = delaunay::topology::spaces::toroidal::ToroidalSpace::<D>::new(dom);
            let by_id: std::collections::HashMap<i64, [f64; D]> =
                tds.vertices().map(|(_, v)| (self.vid(v.uuid()), *v.point().coords())).collect();
            for v in verts.iter_mut() {
                let id = v["id"].as_i64().unwrap();
                let c = by_id[&id];
                let inbox = (0..D).all(|j| c[j] >= 0.0 && c[j] < periods[j]);
                let mut w = c;
                space.canonicalize_point(&mut w);
                let idem = (0..D).all(|j| w[j] == c[j]);
                v["box"] = json!(inbox);
                v["idem"] = json!(idem);
            }
        }
        let unit = pow2(self.s);
        let lat: Vec<i64> = periods.iter().map(|p| (p / unit).round() as i64).collect();
        let mut cfg = cfg_of(dt);
        cfg["L"] = json!(lat);
        json!({
            "live": true,
            "s": self.s,
            "D": D,
            "nv": dt.number_of_vertices(),
            "nc": dt.number_of_cells(),
            "gen": (tds.generation() % (1 << 30)) as i64,
            "verts": verts,
            "cells": cells,
            "cfg": cfg,
        })
    }

    pub fn emit(&mut self, ev: &str, obj: usize, args: Value, res: Value, post: Option<Value>, panic: bool) -> usize {
        self.line += 1;
        *self.counts.entry(ev.to_string()).or_insert(0) += 1;
        let mut o = json!({"ev":ev,"obj":obj,"tag":self.tag,"args":args,"res":res,"panic":panic,"timeout":false});
        if let Some(p) = post {
            o["post"] = p;
        }
        let mut g = self.w.lock().unwrap();
        writeln!(g, "{o}").unwrap();
        self.line
    }

    pub fn reset(&mut self) {
        self.reset_ids();
        self.emit("Reset", 0, json!({}), json!({}), None, false);
    }

    /// append the events of another trace (a child process), case by case: the child's events of case
    /// k are written as an extra case with the same tag (their determinism keys tie them to the parent's)
    pub fn append_raw_cases(&mut self, text: &str) {
        let mut g = self.w.lock().unwrap();
        for line in text.lines() {
            if line.trim().is_empty() {
                continue;
            }
            writeln!(g, "{line}").unwrap();
            self.line += 1;
        }
    }

    pub fn flush(&mut self) {
        self.w.lock().unwrap().flush().unwrap();
    }
}

pub fn dead_state() -> Value {
    json!({"live": false})
}

pub fn cfg_of<K: Kern<D>, const D: usize>(dt: &Dt<K, D>) -> Value {
    let rp = match dt.delaunay_repair_policy() {
        DelaunayRepairPolicy::Never => "Never".to_string(),
        DelaunayRepairPolicy::EveryInsertion => "EveryInsertion".to_string(),
        DelaunayRepairPolicy::EveryN(n) => format!("EveryN{n}"),
    };
    let cp = match dt.delaunay_check_policy() {
        DelaunayCheckPolicy::EndOnly => "EndOnly".to_string(),
        DelaunayCheckPolicy::EveryN(n) => format!("EveryN{n}"),
    };
    json!({
        "g": format!("{:?}", dt.topology_guarantee()),
        "vp": format!("{:?}", dt.validation_policy()),
        "rp": rp,
        "cp": cp,
        "topo": format!("{:?}", dt.topology_kind()),
    })
}

/// toroidal periods (in f64) of the object's global topology, empty if not toroidal
pub fn periods_of<K: Kern<D>, const D: usize>(dt: &Dt<K, D>) -> Vec<f64> {
    match dt.global_topology() {
        delaunay::topology::traits::topological_space::GlobalTopology::Toroidal { domain, .. } => domain.to_vec(),
        _ => vec![],
    }
}

/// first identifier of a Debug rendering = the enum variant name
pub fn variant<T: std::fmt::Debug>(e: &T) -> String {
    let s = format!("{e:?}");
    s.chars().take_while(|c| c.is_alphanumeric() || *c == '_').collect()
}

/// variant path of nested errors, e.g. "TopologyValidation/InconsistentDataStructure"
pub fn variant_path<T: std::fmt::Debug>(e: &T) -> String {
    let s = format!("{e:?}");
    let mut out: Vec<String> = Vec::new();
    let mut cur = String::new();
    for ch in s.chars() {
        if ch.is_alphanumeric() || ch == '_' {
            cur.push(ch);
        } else {
            if (ch == '(' || ch == '{' || ch == ' ') && !cur.is_empty() && cur.chars().next().unwrap().is_uppercase() && out.len() < 3 {
                out.push(cur.clone());
            }
            if ch == ':' || ch == '"' {
                break;
            }
            cur.clear();
        }
    }
    if out.is_empty() { variant(e) } else { out.join("/") }
}
