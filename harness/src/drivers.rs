//! Drivers: enumerate / sample inputs, configurations and histories, run them on the real
//! library through `ops`, and leave an ndjson trace for TLC.

use crate::points::*;
use crate::ops::*;
use crate::proj::*;
use delaunay::core::delaunay_triangulation::{DelaunayCheckPolicy, DelaunayRepairPolicy};
use delaunay::core::triangulation::{TopologyGuarantee, ValidationPolicy};
use delaunay::core::triangulation_data_structure::{CellKey, VertexKey};
use delaunay::geometry::kernel::{FastKernel, RobustKernel};
use std::num::NonZeroUsize;

pub struct Ctx {
    pub tr: Tracer,
    pub rng: Rng,
    pub thorough: bool,
    pub part_k: usize,
    pub part_n: usize,
    pub case: usize,
    pub uuid_ctr: u64,
    pub seed: u64,
}

impl Ctx {
    /// round-robin partition of the case space over parallel driver processes
    pub fn mine(&mut self) -> bool {
        let c = self.case;
        self.case += 1;
        (c + self.seed as usize) % self.part_n == self.part_k
    }
    pub fn fresh_uuid(&mut self) -> u64 {
        self.uuid_ctr += 1;
        self.uuid_ctr
    }
    pub fn inputs(&mut self, pts: &[Vec<i64>], with_data: bool) -> Vec<VIn> {
        pts.iter()
            .enumerate()
            .map(|(i, p)| {
                let n = self.fresh_uuid();
                VIn::lattice(n, p.clone(), if with_data { Some(i as i32 + 100) } else { None })
            })
            .collect()
    }
    pub fn start_case(&mut self, tag: String) {
        self.tr.tag = tag;
        self.tr.reset();
    }
}

#[macro_export]
macro_rules! dispatch {
    ($d:expr, $k:expr, $f:ident ( $($arg:expr),* )) => {
        match ($d, $k) {
            (2, 0) => $f::<FastKernel<f64>, 2>($($arg),*),
            (2, _) => $f::<RobustKernel<f64>, 2>($($arg),*),
            (3, 0) => $f::<FastKernel<f64>, 3>($($arg),*),
            (3, _) => $f::<RobustKernel<f64>, 3>($($arg),*),
            (4, 0) => $f::<FastKernel<f64>, 4>($($arg),*),
            (4, _) => $f::<RobustKernel<f64>, 4>($($arg),*),
            (5, 0) => $f::<FastKernel<f64>, 5>($($arg),*),
            (_, _) => $f::<RobustKernel<f64>, 5>($($arg),*),
        }
    };
}

pub const CTORS: [Ctor; 5] =
    [Ctor::WithKernel, Ctor::WithGuarantee, Ctor::WithOptions, Ctor::WithOptionsStats, Ctor::Builder];

/// configuration number `i` of the cross product ctor x guarantee x options (mixed radix)
pub fn config(i: usize) -> (Ctor, TopologyGuarantee, Opts) {
    let ctor = CTORS[i % 5];
    let g = GUARANTEES[(i / 5) % 3];
    let j = i / 15;
    let opts = Opts { order: j % 4, dedup: (j / 4) % 3, simplex: (j / 12) % 2, retry: (j / 24) % 4 };
    (ctor, g, opts)
}
pub const N_CONFIGS: usize = 5 * 3 * 4 * 3 * 2 * 4;

fn gpmax(d: usize) -> usize {
    match d {
        2 => 9,
        3 => 8,
        _ => 7,
    }
}

// ---------------------------------------------------------------------------------------
// C01 (+C04 verdicts on every constructed state)
// ---------------------------------------------------------------------------------------
fn construct_case<K: Kern<D>, const D: usize>(cx: &mut Ctx, pts: &[Vec<i64>], cfg_i: usize, fam: &str) {
    let (ctor, g, opts) = config(cfg_i);
    cx.start_case(format!("C01 {fam} D={D} k={} cfg={cfg_i}", K::NAME));
    let input = cx.inputs(pts, cfg_i % 2 == 0);
    if let Some(dt) = op_construct::<K, D>(&mut cx.tr, 0, ctor, g, opts, &input) {
        op_verdicts(&mut cx.tr, 0, &dt, gpmax(D));
    }
}

fn construct_case_cfg<K: Kern<D>, const D: usize>(cx: &mut Ctx, pts: &[Vec<i64>], ctor: Ctor, g: TopologyGuarantee, opts: Opts, tag: &str) {
    cx.start_case(format!("{tag} k={} {ctor:?} {g:?} {}", K::NAME, opts.name()));
    let input = cx.inputs(pts, false);
    if let Some(dt) = op_construct::<K, D>(&mut cx.tr, 0, ctor, g, opts, &input) {
        op_verdicts(&mut cx.tr, 0, &dt, 0);
    }
}

pub fn drive_construct(cx: &mut Ctx) {
    // (0) wide coordinate ranges through every dedup policy / ordering, with and without statistics: a small cluster in
    //     general position plus outliers at 2^45 / 2^50 (coordinate / tolerance beyond what a quantised key can hold).
    //     Nothing is a duplicate, so every input vertex must be present or counted as skipped.
    for d in 2..=3usize {
        for i in 0..(if cx.thorough { 48 } else { 12 }) {
            if !cx.mine() {
                continue;
            }
            let mut r = Rng::new(cx.seed * 1_300_021 + (d * 1000 + i) as u64);
            let mut pts = gp_points(&mut r, d, d + 3, max_coord(d));
            let w: i64 = 1 << [45, 50, 43][i % 3];
            let mut a = vec![1i64; d];
            a[i % d] = w;
            pts.insert(i % 3, a);
            let mut b = vec![2i64; d];
            b[(i + 1) % d] = -w;
            pts.push(b);
            let o = Opts { order: i % 4, dedup: 1 + (i / 4) % 2, simplex: (i / 2) % 2, retry: [0, 3][(i / 8) % 2] };
            let ctor = [Ctor::WithOptionsStats, Ctor::WithOptions, Ctor::Builder][i % 3];
            let k = (i / 3) % 2;
            let g = GUARANTEES[i % 3];
            dispatch!(d, k, construct_case_cfg(cx, &pts, ctor, g, o, &format!("C01 widededup D={d} i={i}")));
        }
    }
    // (a) exhaustive: every subset of the 3x3 grid with >= 3 points (2-D)
    let g2 = grid(2, 3);
    let mut cfg_i = cx.seed as usize;
    for mask in 0u64..512 {
        if mask.count_ones() < 3 {
            continue;
        }
        let reps = if cx.thorough { 4 } else { 1 };
        for _ in 0..reps {
            cfg_i = (cfg_i + 7) % N_CONFIGS;
            if !cx.mine() {
                continue;
            }
            let pts = subset(&g2, mask);
            let k = cfg_i % 2;
            dispatch!(2, k, construct_case(cx, &pts, cfg_i, "grid3x3"));
        }
    }
    // (b) exhaustive: every subset of the unit cube with >= 4 points (3-D, maximally cospherical)
    let g3 = grid(3, 2);
    for mask in 0u64..256 {
        if mask.count_ones() < 4 {
            continue;
        }
        let reps = if cx.thorough { 3 } else { 1 };
        for _ in 0..reps {
            cfg_i = (cfg_i + 11) % N_CONFIGS;
            if !cx.mine() {
                continue;
            }
            let pts = subset(&g3, mask);
            let k = cfg_i % 2;
            dispatch!(3, k, construct_case(cx, &pts, cfg_i, "cube"));
        }
    }
    // (b2) exactly degenerate 3-D grids (2x2x3, 2x3x3: every 4 neighbours coplanar, every 8 cospherical) in
    //      random caller orders - with Input ordering the order matters - under every guarantee, with and
    //      without retries, through constructors with and without statistics
    {
        let grids: [Vec<Vec<i64>>; 2] = [
            grid(3, 3).into_iter().filter(|p| p[0] < 2 && p[1] < 2).collect(),
            grid(3, 3).into_iter().filter(|p| p[0] < 2).collect(),
        ];
        let n_orders = if cx.thorough { 400 } else { 120 };
        for i in 0..n_orders {
            let mut r = Rng::new(cx.seed * 77_003 + i as u64);
            if !cx.mine() {
                continue;
            }
            let mut pts = grids[i % 2].clone();
            r.shuffle(&mut pts);
            let g = GUARANTEES[(i / 2) % 3];
            let ctor = [Ctor::WithOptions, Ctor::Builder, Ctor::WithOptionsStats, Ctor::WithGuarantee][(i / 6) % 4];
            let opts = Opts { order: if i % 5 == 4 { 3 } else { 0 }, dedup: 0, simplex: (i / 24) % 2, retry: [0, 3, 0, 1][(i / 3) % 4] };
            let k = (i / 12) % 2;
            let tag = format!("C01 grid3d D=3 i={i}");
            match k {
                0 => construct_case_cfg::<FastKernel<f64>, 3>(cx, &pts, ctor, g, opts, &tag),
                _ => construct_case_cfg::<RobustKernel<f64>, 3>(cx, &pts, ctor, g, opts, &tag),
            }
        }
    }
    // (c) {0,1}^4 subsets (sampled) and sampled families for D = 2..5
    let per_dim = if cx.thorough { 160 } else { 24 };
    for d in 2..=5usize {
        for i in 0..per_dim {
            cfg_i = (cfg_i + 13) % N_CONFIGS;
            let mut r = Rng::new(cx.seed * 1_000_003 + (d * 10_000 + i) as u64);
            if !cx.mine() {
                continue;
            }
            let hi = max_coord(d);
            let n = d + 1 + r.below(max_points(d) - d);
            let (pts, fam) = match i % 5 {
                0 => (gp_points(&mut r, d, n.min(gpmax(d)), hi), "gp"),
                1 => (random_points(&mut r, d, n, hi), "random"),
                2 => (degenerate_points(&mut r, d, n, hi), "degenerate"),
                3 => (clustered_points(&mut r, d, n.saturating_sub(2).max(d + 1), hi), "clustered"),
                _ => {
                    let g = grid(d, 2);
                    let mut idx: Vec<usize> = (0..g.len()).collect();
                    r.shuffle(&mut idx);
                    let take = (d + 1 + r.below(4)).min(g.len()).min(max_points(d));
                    (idx[..take].iter().map(|&j| g[j].clone()).collect(), "hypercube")
                }
            };
            if pts.len() < d + 1 {
                continue;
            }
            let k = cfg_i % 2;
            dispatch!(d, k, construct_case(cx, &pts, cfg_i, fam));
        }
    }
}

// ---------------------------------------------------------------------------------------
// C02: insertion histories with policies (changed mid-history)
// ---------------------------------------------------------------------------------------
fn pick_policy(r: &mut Rng) -> PolicySet {
    match r.below(10) {
        0 => PolicySet::Validation(ValidationPolicy::Never),
        1 => PolicySet::Validation(ValidationPolicy::OnSuspicion),
        2 => PolicySet::Validation(ValidationPolicy::Always),
        3 => PolicySet::Validation(ValidationPolicy::DebugOnly),
        4 => PolicySet::Repair(DelaunayRepairPolicy::Never),
        5 => PolicySet::Repair(DelaunayRepairPolicy::EveryInsertion),
        6 => PolicySet::Repair(DelaunayRepairPolicy::EveryN(NonZeroUsize::new(2).unwrap())),
        7 => PolicySet::Check(DelaunayCheckPolicy::EndOnly),
        8 => PolicySet::Check(DelaunayCheckPolicy::EveryN(NonZeroUsize::new(1).unwrap())),
        _ => PolicySet::Check(DelaunayCheckPolicy::EveryN(NonZeroUsize::new(3).unwrap())),
    }
}

fn insert_history<K: Kern<D>, const D: usize>(cx: &mut Ctx, r: &mut Rng, idx: usize) {
    let hi = max_coord(D);
    let g = GUARANTEES[idx % 3];
    // every fourth history lives at a small length scale (lattice unit 2^-10): points just outside the duplicate
    // tolerance of a vertex are then INSIDE the tolerance band of the fast predicates
    let small_scale = (idx / 2) % 4 == 1; // both kernels (the kernel alternates with idx)
    cx.tr.s = if small_scale { -10 } else { 0 };
    cx.start_case(format!("C02 hist D={D} k={} g={g:?} i={idx} s={}", K::NAME, cx.tr.s));
    insert_history_body::<K, D>(cx, r, idx, hi, g, small_scale);
    cx.tr.s = 0;
}

fn insert_history_body<K: Kern<D>, const D: usize>(cx: &mut Ctx, r: &mut Rng, idx: usize, hi: i64, g: TopologyGuarantee, small_scale: bool) {
    // start: empty, or constructed from a few points
    let from_constructed = idx % 4 == 3;
    let fam = (idx / 4) % 4;
    let n_total = (D + 2 + r.below(max_points(D) - D - 1)).min(max_points(D));
    let pts = match fam {
        0 => random_points(r, D, n_total, hi),
        1 => degenerate_points(r, D, n_total, hi),
        2 => {
            // collinear / coplanar bootstrap prefix: first D+1 points on x1 = 0 (degenerate simplex)
            let mut p = random_points(r, D, n_total, hi);
            for q in p.iter_mut().take(D + 1) {
                q[D - 1] = 0;
            }
            p.dedup();
            p
        }
        _ => gp_points(r, D, n_total.min(gpmax(D) + 1), hi),
    };
    let mut dt: Dt<K, D>;
    let mut rest: Vec<Vec<i64>>;
    if from_constructed && pts.len() > D + 2 {
        let (a, b) = pts.split_at(D + 2);
        let input = cx.inputs(a, true);
        match op_construct::<K, D>(&mut cx.tr, 0, Ctor::WithGuarantee, g, Opts::default_like(), &input) {
            Some(d) => dt = d,
            None => return,
        }
        rest = b.to_vec();
    } else {
        dt = op_empty::<K, D>(&mut cx.tr, 0, g);
        rest = pts.clone();
    }
    // a few initial policy choices
    for _ in 0..r.below(3) {
        if !op_set_policy(&mut cx.tr, 0, &mut dt, pick_policy(r)) {
            return;
        }
    }
    let mut inserted: Vec<VIn> = Vec::new();
    rest.reverse();
    let mut steps = 0;
    while let Some(p) = rest.pop() {
        steps += 1;
        if steps > 16 {
            break;
        }
        let n = cx.fresh_uuid();
        let v = VIn::lattice(n, p, Some(steps));
        if !op_insert(&mut cx.tr, 0, &mut dt, &v, r.chance(1, 2)) {
            return;
        }
        inserted.push(v);
        // occasionally: a duplicate (same coordinates, fresh uuid), a reused uuid, a policy change
        match r.below(8) {
            0 => {
                let old = r.pick(&inserted).clone();
                let n = cx.fresh_uuid();
                let dup = VIn { uuid: mk_uuid(n), ..old };
                if !op_insert(&mut cx.tr, 0, &mut dt, &dup, r.chance(1, 2)) {
                    return;
                }
            }
            1 => {
                let old = r.pick(&inserted).clone();
                let mut m = old.m.clone();
                m[0] = (m[0] + 1) % (hi + 1);
                let reuse = VIn { m, ..old };
                if !op_insert(&mut cx.tr, 0, &mut dt, &reuse, r.chance(1, 2)) {
                    return;
                }
            }
            2 | 3 => {
                if !op_set_policy(&mut cx.tr, 0, &mut dt, pick_policy(r)) {
                    return;
                }
            }
            _ => {}
        }
    }
    op_verdicts(&mut cx.tr, 0, &dt, gpmax(D));
    // C09 probes at the STORED position of every current vertex (perturbed ones included): an exact copy
    // and a copy inside the tolerance must be refused as duplicates; one outside it must not be
    let us: Vec<uuid::Uuid> = dt.vertices().map(|(_, v)| v.uuid()).collect();
    for (i, u) in us.iter().enumerate() {
        for kind in ["copy", "nearcopy"] {
            let n = cx.fresh_uuid();
            if !op_insert_copy(&mut cx.tr, 0, &mut dt, *u, kind, n, i % 2 == 0) {
                return;
            }
        }
    }
    // points just OUTSIDE the duplicate tolerance of a vertex (each on a fresh clone): never duplicates, and whatever
    // happens the result is a valid triangulation or no change
    let kinds: &[&'static str] = if small_scale { &["farcopy", "farcopy27", "farcopy24"] } else { &["farcopy"] };
    for (i, u) in us.iter().enumerate().take(if small_scale { 6 } else { 1 }) {
        for kind in kinds {
            let mut c = dt.clone();
            let n = cx.fresh_uuid();
            crate::ops2::op_clone(&mut cx.tr, 0, 1, &dt);
            op_insert_copy(&mut cx.tr, 1, &mut c, *u, kind, n, i % 2 == 1);
        }
    }
}

/// a minimal complex at a small length scale: one simplex with one (or two) interior vertices; then points just
/// outside the duplicate tolerance of an interior vertex - inside the tolerance band of every circumsphere around it
fn near_vertex_case<K: Kern<D>, const D: usize>(cx: &mut Ctx, r: &mut Rng, idx: usize) {
    let g = GUARANTEES[idx % 3];
    let s = [-10, -10, -12, -8][idx % 4];
    cx.tr.s = s;
    cx.start_case(format!("C02 nearvertex D={D} k={} g={g:?} i={idx} s={s}", K::NAME));
    let mut pts: Vec<Vec<i64>> = vec![vec![0; D]];
    for j in 0..D {
        let mut p = vec![0i64; D];
        p[j] = 8;
        pts.push(p);
    }
    pts.push(vec![if D == 2 { 2 } else { 1 }; D]);
    if idx % 2 == 1 {
        let mut p = vec![1i64; D];
        p[0] = 2;
        p[D - 1] = if D == 2 { 3 } else { 2 };
        pts.push(p);
    }
    let mut dt = op_empty::<K, D>(&mut cx.tr, 0, g);
    match (idx / 2) % 4 {
        1 => {
            op_set_policy(&mut cx.tr, 0, &mut dt, PolicySet::Validation(ValidationPolicy::Never));
        }
        2 => {
            op_set_policy(&mut cx.tr, 0, &mut dt, PolicySet::Validation(ValidationPolicy::DebugOnly));
        }
        3 => {
            op_set_policy(&mut cx.tr, 0, &mut dt, PolicySet::Repair(DelaunayRepairPolicy::Never));
        }
        _ => {}
    }
    let mut uu = Vec::new();
    for p in &pts {
        let v = VIn::lattice(cx.fresh_uuid(), p.clone(), Some(1));
        if !op_insert(&mut cx.tr, 0, &mut dt, &v, false) {
            cx.tr.s = 0;
            return;
        }
        uu.push(v.uuid);
    }
    let _ = r;
    for u in uu.iter().skip(D + 1) {
        for (j, kind) in ["farcopy27", "farcopy", "farcopy24"].into_iter().enumerate() {
            let mut c = dt.clone();
            let n = cx.fresh_uuid();
            crate::ops2::op_clone(&mut cx.tr, 0, 1, &dt);
            if !op_insert_copy(&mut cx.tr, 1, &mut c, *u, kind, n, (idx + j) % 2 == 1) {
                cx.tr.s = 0;
                return;
            }
            // and the triangulation stays usable
            let far: Vec<i64> = (0..D).map(|t| if t == 0 { 3 } else { 1 }).collect();
            let v = VIn::lattice(cx.fresh_uuid(), far, Some(2));
            op_insert(&mut cx.tr, 1, &mut c, &v, false);
        }
    }
    cx.tr.s = 0;
}

/// a degenerate bootstrap prefix (the first D+1 points in one hyperplane) under every repair x check policy: the
/// (D+1)-th insertion fails AFTER the vertex entered the Tds; whatever the policies, the failed call must leave a
/// bootstrap state from which ordinary points can still be inserted
fn degenerate_bootstrap_case<K: Kern<D>, const D: usize>(cx: &mut Ctx, r: &mut Rng, idx: usize) {
    let g = GUARANTEES[idx % 3];
    cx.start_case(format!("C02 degboot D={D} k={} g={g:?} i={idx}", K::NAME));
    let mut dt = op_empty::<K, D>(&mut cx.tr, 0, g);
    let rp = [DelaunayRepairPolicy::Never, DelaunayRepairPolicy::EveryInsertion, DelaunayRepairPolicy::EveryN(NonZeroUsize::new(2).unwrap())][idx % 3];
    let cp = [DelaunayCheckPolicy::EndOnly, DelaunayCheckPolicy::EveryN(NonZeroUsize::new(1).unwrap()), DelaunayCheckPolicy::EveryN(NonZeroUsize::new(3).unwrap())][(idx / 3) % 3];
    if !op_set_policy(&mut cx.tr, 0, &mut dt, PolicySet::Repair(rp)) || !op_set_policy(&mut cx.tr, 0, &mut dt, PolicySet::Check(cp)) {
        return;
    }
    // D+2 points with last coordinate 0 (a hyperplane), then two ordinary points
    let hi = max_coord(D);
    let mut flat: Vec<Vec<i64>> = Vec::new();
    while flat.len() < D + 2 {
        let mut p: Vec<i64> = (0..D).map(|_| r.range(0, hi)).collect();
        p[D - 1] = 0;
        if !flat.contains(&p) {
            flat.push(p);
        }
    }
    for (i, p) in flat.iter().enumerate() {
        let v = VIn::lattice(cx.fresh_uuid(), p.clone(), Some(i as i32));
        if !op_insert(&mut cx.tr, 0, &mut dt, &v, (idx + i) % 2 == 0) {
            return;
        }
    }
    for t in 0..2 {
        let mut p: Vec<i64> = (0..D).map(|_| r.range(0, hi)).collect();
        p[D - 1] = 1 + t;
        let v = VIn::lattice(cx.fresh_uuid(), p, Some(9));
        if !op_insert(&mut cx.tr, 0, &mut dt, &v, t == 0) {
            return;
        }
    }
    op_verdicts(&mut cx.tr, 0, &dt, gpmax(D));
}

pub fn drive_insert(cx: &mut Ctx) {
    for d in 2..=5usize {
        for i in 0..(if cx.thorough { 36 } else { 18 }) {
            let mut r = Rng::new(cx.seed * 7_000_031 + (d * 100_000 + i) as u64);
            if !cx.mine() {
                continue;
            }
            let k = (i / 9) % 2;
            dispatch!(d, k, degenerate_bootstrap_case(cx, &mut r, i));
        }
    }
    for d in 2..=5usize {
        for i in 0..(if cx.thorough { 48 } else { 16 }) {
            let mut r = Rng::new(cx.seed * 7_000_019 + (d * 100_000 + i) as u64);
            if !cx.mine() {
                continue;
            }
            let k = (i / 8) % 2;
            dispatch!(d, k, near_vertex_case(cx, &mut r, i));
        }
    }
    let per_dim = if cx.thorough { 120 } else { 16 };
    for d in 2..=5usize {
        for i in 0..per_dim {
            let mut r = Rng::new(cx.seed * 7_000_003 + (d * 100_000 + i) as u64);
            if !cx.mine() {
                continue;
            }
            let k = i % 2;
            dispatch!(d, k, insert_history(cx, &mut r, i));
        }
    }
}

// ---------------------------------------------------------------------------------------
// helpers to build a base triangulation for the C04/C06/C07/C08 drivers
// ---------------------------------------------------------------------------------------
fn base_points(r: &mut Rng, d: usize, idx: usize, small: bool) -> Vec<Vec<i64>> {
    let hi = max_coord(d);
    let cap = if small { d + 4 } else { max_points(d) };
    let n = (d + 2 + r.below(cap - d - 1)).min(cap);
    match idx % 3 {
        0 => gp_points(r, d, n.min(gpmax(d) + 1), hi),
        1 => random_points(r, d, n, hi),
        _ => degenerate_points(r, d, n, hi),
    }
}

fn build_base<K: Kern<D>, const D: usize>(cx: &mut Ctx, pts: &[Vec<i64>], g: TopologyGuarantee) -> Option<Dt<K, D>> {
    let input = cx.inputs(pts, true);
    op_construct::<K, D>(&mut cx.tr, 0, Ctor::WithGuarantee, g, Opts::default_like(), &input)
}

fn cell_keys<K: Kern<D>, const D: usize>(dt: &Dt<K, D>) -> Vec<CellKey> {
    dt.tds().cell_keys().collect()
}
fn vertex_keys<K: Kern<D>, const D: usize>(dt: &Dt<K, D>) -> Vec<VertexKey> {
    dt.tds().vertex_keys().collect()
}

/// the inverse of a successful move, addressed through the face it created
fn inverse_of<K: Kern<D>, const D: usize>(dt: &Dt<K, D>, fa: &FlipArg, out: &FlipOut) -> Option<FlipArg> {
    let b = &out.iface;
    let find_cell_with = |face: &[VertexKey]| -> Option<(CellKey, Vec<u8>)> {
        for &ck in &out.new_cells {
            if let Some(c) = dt.tds().get_cell(ck) {
                if face.iter().all(|f| c.vertices().contains(f)) {
                    let omit: Vec<u8> = c
                        .vertices()
                        .iter()
                        .enumerate()
                        .filter(|(_, v)| !face.contains(v))
                        .map(|(i, _)| i as u8)
                        .collect();
                    return Some((ck, omit));
                }
            }
        }
        None
    };
    match fa {
        FlipArg::K1Insert(..) => b.first().map(|&v| FlipArg::K1Remove(v)),
        FlipArg::K1Remove(..) => None,
        FlipArg::K2(..) => {
            if D == 2 {
                let (ck, omit) = find_cell_with(b)?;
                Some(FlipArg::K2(ck, *omit.first()?))
            } else {
                Some(FlipArg::K2Inv(*b.first()?, *b.get(1)?))
            }
        }
        FlipArg::K3(..) => {
            if D == 3 {
                let (ck, omit) = find_cell_with(b)?;
                Some(FlipArg::K2(ck, *omit.first()?))
            } else {
                Some(FlipArg::K3Inv(*b.first()?, *b.get(1)?, *b.get(2)?))
            }
        }
        FlipArg::K2Inv(..) => {
            let (ck, omit) = find_cell_with(b)?;
            Some(FlipArg::K2(ck, *omit.first()?))
        }
        FlipArg::K3Inv(..) => {
            let (ck, omit) = find_cell_with(b)?;
            Some(FlipArg::K3(ck, *omit.first()?, *omit.get(1)?))
        }
    }
}

// ---------------------------------------------------------------------------------------
// C07: every handle of a triangulation, each move followed by its inverse
// ---------------------------------------------------------------------------------------
fn flip_case<K: Kern<D>, const D: usize>(cx: &mut Ctx, r: &mut Rng, idx: usize) {
    let g = GUARANTEES[idx % 3];
    cx.start_case(format!("C07 flips D={D} k={} i={idx}", K::NAME));
    // D >= 4, odd cases: 9-10 points with coordinates 0..200 (flips are purely combinatorial, so the
    // exact-geometry bound of the TLC oracles does not apply; the base enters the trace through an
    // `Adopt` event that certifies Levels 1-2 only). Richer flip graphs than the tiny lattice gives.
    let wide = D >= 4 && idx % 2 == 1;
    let nwide = 9 + r.below(2);
    let pts = if wide { random_points(r, D, nwide, 200) } else { base_points(r, D, idx, true) };
    if pts.len() < D + 1 {
        return;
    }
    let mut dt = if wide {
        let input = cx.inputs(&pts, true);
        let s = cx.tr.s;
        let vs: Vec<_> = input.iter().map(|v| v.vertex::<D>(s)).collect();
        let Ok(mut d0) = Dt::<K, D>::with_topology_guarantee(&K::default(), &vs, g) else { return };
        // recycled storage slots: remove a vertex, insert two new ones (the first takes the freed slot)
        if idx % 4 != 3 {
            let victims: Vec<_> = d0.vertices().map(|(_, v)| *v).collect();
            let v = *r.pick(&victims);
            let _ = d0.remove_vertex(&v);
            for _ in 0..2 {
                let p: Vec<i64> = (0..D).map(|_| r.range(0, 200)).collect();
                let _ = d0.insert(VIn::lattice(cx.fresh_uuid(), p, Some(7)).vertex::<D>(s));
            }
            if d0.as_triangulation().validate().is_err() {
                return;
            }
        }
        let post = cx.tr.project(&d0);
        cx.tr.emit("Adopt", 0, serde_json::json!({"D": D, "why": "wide-coordinate base for combinatorial flip checks"}), serde_json::json!({}), Some(post), false);
        d0
    } else {
        let Some(mut d0) = build_base::<K, D>(cx, &pts, g) else { return };
        // recycled storage slots (logged calls): remove a vertex, insert two new ones
        if idx % 3 != 0 {
            let victims: Vec<_> = d0.vertices().map(|(_, v)| v.uuid()).collect();
            let u = *r.pick(&victims);
            if !op_remove(&mut cx.tr, 0, &mut d0, u) {
                return;
            }
            let hi = max_coord(D);
            for _ in 0..2 {
                let p: Vec<i64> = (0..D).map(|_| r.range(0, hi)).collect();
                if pts.contains(&p) {
                    continue;
                }
                let v = VIn::lattice(cx.fresh_uuid(), p, Some(7));
                if !op_insert(&mut cx.tr, 0, &mut d0, &v, false) {
                    return;
                }
            }
            if d0.number_of_cells() == 0 {
                return;
            }
        }
        d0
    };
    let stale_cell: Option<CellKey> = None;
    let budget = if cx.thorough { 90 } else { 36 };
    let mut done = 0usize;

    // enumerate handle POSITIONS; keys are re-read from the current state each time
    let mut handles: Vec<(u8, usize, u8, u8)> = Vec::new(); // (kind, cell index, i, j)
    let nc = dt.number_of_cells();
    for ci in 0..nc {
        for i in 0..=(D as u8 + 1) {
            handles.push((2, ci, i, 0)); // k2 incl. one out-of-range index
            if D >= 3 {
                for j in i..=(D as u8) {
                    handles.push((3, ci, i, j)); // k3 incl. i = j
                }
            }
        }
        handles.push((1, ci, 0, 0)); // k1 insert into cell ci
    }
    let nv = dt.number_of_vertices();
    for vi in 0..nv {
        handles.push((4, vi, 0, 0)); // k1 remove
        for vj in (vi + 1)..nv {
            if D >= 3 {
                handles.push((5, vi, vj as u8, 0)); // k2 inverse from edge (vi, vj)
            }
            if D >= 4 {
                for vk in (vj + 1)..nv {
                    handles.push((6, vi, vj as u8, vk as u8));
                }
            }
        }
    }
    r.shuffle(&mut handles);
    for (kind, a, i, j) in handles {
        if done >= budget {
            break;
        }
        let cks = cell_keys(&dt);
        let vks = vertex_keys(&dt);
        let fa = match kind {
            2 => FlipArg::K2(cks[a % cks.len()], i),
            3 => FlipArg::K3(cks[a % cks.len()], i, j),
            1 => {
                // a lattice point: the (rounded) centroid of the cell, or a random point
                let ck = cks[a % cks.len()];
                let cell = dt.tds().get_cell(ck).unwrap();
                let mut m = vec![0i64; D];
                for vk in cell.vertices() {
                    let v = dt.tds().get_vertex_by_key(*vk).unwrap();
                    let (vm, _, _, _) = cx.tr.coord_proj(v.point().coords());
                    for t in 0..D {
                        m[t] += vm[t];
                    }
                }
                for t in 0..D {
                    m[t] /= D as i64 + 1;
                }
                if r.chance(1, 4) {
                    m = random_points(r, D, 1, if wide { 200 } else { max_coord(D) })[0].clone();
                }
                let n = cx.fresh_uuid();
                FlipArg::K1Insert(ck, VIn::lattice(n, m, Some(7)))
            }
            4 => FlipArg::K1Remove(vks[a % vks.len()]),
            5 => FlipArg::K2Inv(vks[a % vks.len()], vks[i as usize % vks.len()]),
            _ => FlipArg::K3Inv(vks[a % vks.len()], vks[i as usize % vks.len()], vks[j as usize % vks.len()]),
        };
        done += 1;
        let before_line = cx.tr.line; // the line whose post-state is the state before this flip
        let out = op_flip(&mut cx.tr, 0, &mut dt, &fa, 0, "forward");
        if out.panicked {
            return;
        }
        if out.ok {
            if let Some(inv) = inverse_of(&dt, &fa, &out) {
                let o2 = op_flip(&mut cx.tr, 0, &mut dt, &inv, before_line, "inverse");
                if o2.panicked {
                    return;
                }
            }
        }
    }
    // random walk of forward flips that is NOT undone, then every inverse-type handle on the walked
    // state: configurations where the simplex a move would insert already exists elsewhere only arise
    // away from freshly built triangulations
    if D >= 3 {
        // does some triangle with exactly D-1 incident cells have a link simplex S that already exists
        // in a cell sharing no vertex with it? (only such states distinguish a missing "inserted simplex
        // already exists" pre-check from the later local checks)
        let strict_hot_exists = |dt: &Dt<K, D>| -> bool {
            if D < 4 {
                return false;
            }
            use std::collections::BTreeMap;
            let mut tri: BTreeMap<[VertexKey; 3], Vec<VertexKey>> = BTreeMap::new();
            let mut deg: BTreeMap<[VertexKey; 3], usize> = BTreeMap::new();
            for (_, c) in dt.cells() {
                let mut vs: Vec<VertexKey> = c.vertices().to_vec();
                vs.sort();
                for a in 0..vs.len() {
                    for b in (a + 1)..vs.len() {
                        for e in (b + 1)..vs.len() {
                            let k = [vs[a], vs[b], vs[e]];
                            *deg.entry(k).or_insert(0) += 1;
                            let u = tri.entry(k).or_default();
                            for v in &vs {
                                if !u.contains(v) {
                                    u.push(*v);
                                }
                            }
                        }
                    }
                }
            }
            for (k, n) in &deg {
                if *n != D - 1 {
                    continue;
                }
                if tri[k].len() != D + 2 {
                    continue; // the star does not have the shape of a bistellar move
                }
                let s: Vec<VertexKey> = tri[k].iter().copied().filter(|v| !k.contains(v)).collect();
                let with_s: Vec<_> = dt.cells().filter(|(_, c)| s.iter().all(|v| c.vertices().contains(v))).collect();
                if !with_s.is_empty() && with_s.iter().all(|(_, c)| !k.iter().any(|v| c.vertices().contains(v))) {
                    return true;
                }
            }
            false
        };
        let want = if wide { if cx.thorough { 160 } else { 70 } } else if cx.thorough { 40 } else { 16 };
        let mut okc = 0;
        let mut tries = 0;
        while okc < want && tries < 5 * want && !(wide && okc >= 8 && strict_hot_exists(&dt)) {
            tries += 1;
            // candidates with the right star size: interior facets (k=2), ridges in exactly 3 cells (k=3)
            let mut cands: Vec<FlipArg> = Vec::new();
            {
                use std::collections::BTreeMap;
                let mut ridge_deg: BTreeMap<Vec<VertexKey>, (usize, CellKey, u8, u8)> = BTreeMap::new();
                for (ck, c) in dt.cells() {
                    let vs = c.vertices();
                    if let Some(nb) = c.neighbors() {
                        for (i, n) in nb.iter().enumerate() {
                            if n.is_some() {
                                cands.push(FlipArg::K2(ck, i as u8));
                            }
                        }
                    }
                    for i in 0..vs.len() {
                        for j in (i + 1)..vs.len() {
                            let mut key: Vec<VertexKey> = vs.iter().enumerate().filter(|(t, _)| *t != i && *t != j).map(|(_, v)| *v).collect();
                            key.sort();
                            let e = ridge_deg.entry(key).or_insert((0, ck, i as u8, j as u8));
                            e.0 += 1;
                        }
                    }
                }
                for (_, (n, ck, i, j)) in ridge_deg {
                    if n == 3 {
                        cands.push(FlipArg::K3(ck, i, j));
                        cands.push(FlipArg::K3(ck, i, j)); // weight k=3 moves up
                    }
                }
            }
            if cands.is_empty() {
                break;
            }
            let fa = r.pick(&cands).clone();
            let out = op_flip(&mut cx.tr, 0, &mut dt, &fa, 0, "walk");
            if out.panicked {
                return;
            }
            if out.ok {
                okc += 1;
            }
        }
        if std::env::var_os("VERIF_DEBUG_WALK").is_some() {
            eprintln!("walk D={D} wide={wide} ok={okc} tries={tries} strict_hot={} nv={} nc={}", strict_hot_exists(&dt), dt.number_of_vertices(), dt.number_of_cells());
        }
        // every inverse-type handle whose star has the right size, each tried on a CLONE of the walked
        // state (so that one success does not hide the next candidate)
        let mut inv: Vec<FlipArg> = Vec::new();
        {
            use std::collections::BTreeMap;
            let mut edge_deg: BTreeMap<(VertexKey, VertexKey), usize> = BTreeMap::new();
            let mut tri_deg: BTreeMap<(VertexKey, VertexKey, VertexKey), usize> = BTreeMap::new();
            for (_, c) in dt.cells() {
                let mut vs: Vec<VertexKey> = c.vertices().to_vec();
                vs.sort();
                for a in 0..vs.len() {
                    for b in (a + 1)..vs.len() {
                        *edge_deg.entry((vs[a], vs[b])).or_insert(0) += 1;
                        for e in (b + 1)..vs.len() {
                            *tri_deg.entry((vs[a], vs[b], vs[e])).or_insert(0) += 1;
                        }
                    }
                }
            }
            for ((a, b), n) in edge_deg {
                if n == D {
                    inv.push(FlipArg::K2Inv(a, b));
                }
            }
            if D >= 4 {
                for ((a, b, e), n) in tri_deg {
                    if n == D - 1 {
                        inv.push(FlipArg::K3Inv(a, b, e));
                    }
                }
            }
        }
        r.shuffle(&mut inv);
        // steering: candidates whose would-be inserted simplex already exists somewhere else in the
        // complex (the pre-check a correct implementation needs) go first
        let hot = |fa: &FlipArg| -> bool {
            let face: Vec<VertexKey> = match fa {
                FlipArg::K2Inv(a, b) => vec![*a, *b],
                FlipArg::K3Inv(a, b, e) => vec![*a, *b, *e],
                _ => return false,
            };
            let mut union: Vec<VertexKey> = Vec::new();
            for (_, c) in dt.cells() {
                if face.iter().all(|f| c.vertices().contains(f)) {
                    for v in c.vertices() {
                        if !union.contains(v) {
                            union.push(*v);
                        }
                    }
                }
            }
            if union.len() != D + 2 {
                return false;
            }
            let s: Vec<VertexKey> = union.into_iter().filter(|v| !face.contains(v)).collect();
            let with_s: Vec<_> = dt.cells().filter(|(_, c)| s.iter().all(|v| c.vertices().contains(v))).collect();
            !s.is_empty() && !with_s.is_empty() && with_s.iter().all(|(_, c)| !face.iter().any(|v| c.vertices().contains(v)))
        };
        let (mut first, rest): (Vec<FlipArg>, Vec<FlipArg>) = inv.into_iter().partition(|fa| hot(fa));
        first.extend(rest);
        let inv = first;
        let cap = if cx.thorough { 120 } else { 40 };
        for fa in inv.into_iter().take(cap) {
            let mut c = crate::ops2::op_clone(&mut cx.tr, 0, 1, &dt);
            let out = op_flip(&mut cx.tr, 1, &mut c, &fa, 0, "inverse-on-walked");
            if std::env::var_os("VERIF_DEBUG_WALK").is_some() {
                eprintln!("  cand {} hot={} ok={} {}", fa.mv(), hot(&fa), out.ok, out.err);
            }
            if out.panicked {
                return;
            }
        }
    }
    // stale handles: keys of cells that no longer exist, and keys from a foreign triangulation
    let _ = stale_cell;
    {
        let cks = cell_keys(&dt);
        let old = cks[0];
        let out = op_flip(&mut cx.tr, 0, &mut dt, &FlipArg::K2(old, 0), 0, "pre-stale");
        if out.panicked {
            return;
        }
        // after a successful flip `old` may be gone: use it again (stale if removed)
        let out = op_flip(&mut cx.tr, 0, &mut dt, &FlipArg::K2(old, 1), 0, "maybe-stale");
        if out.panicked {
            return;
        }
        // foreign keys: from an unrelated bigger triangulation
        let fpts = random_points(r, D, max_points(D), max_coord(D));
        let fin: Vec<VIn> = fpts.iter().map(|p| VIn::lattice(cx.fresh_uuid(), p.clone(), None)).collect();
        let s = cx.tr.s;
        let fvs: Vec<_> = fin.iter().map(|v| v.vertex::<D>(s)).collect();
        if let Ok(foreign) = Dt::<K, D>::with_kernel(&K::default(), &fvs) {
            if let Some(fk) = foreign.tds().cell_keys().last() {
                let out = op_flip(&mut cx.tr, 0, &mut dt, &FlipArg::K2(fk, 0), 0, "foreign");
                if out.panicked {
                    return;
                }
            }
            if let Some(fv) = foreign.tds().vertex_keys().last() {
                let out = op_flip(&mut cx.tr, 0, &mut dt, &FlipArg::K1Remove(fv), 0, "foreign");
                if out.panicked {
                    return;
                }
            }
        }
    }
    if !wide {
        op_verdicts(&mut cx.tr, 0, &dt, gpmax(D));
    }
}

/// "spine" configurations: three collinear points inside a triangle fan (A, B, E on a line, C and D left and right).
/// Flipping the edge A-B would insert the edge C-D, which already exists as an edge of the triangle E-C-D: an illegal
/// move whose only guard is the count of existing owners of the inserted facet. Built incrementally in every
/// insertion order (the age of the vertices decides which key is the smallest in each cell), in four orientations.
fn spine_case<K: Kern<2>>(cx: &mut Ctx, perm: &[usize], orient: usize) {
    cx.start_case(format!("C07 spine k={} perm={perm:?} orient={orient}", K::NAME));
    let base: [[i64; 2]; 5] = [[0, 4], [0, 2], [0, 1], [-4, 0], [4, 0]];
    let tf = |p: [i64; 2]| -> Vec<i64> {
        let (x, y) = (p[0], p[1]);
        let (x, y) = match orient % 4 { 0 => (x, y), 1 => (-y, x), 2 => (-x, -y), _ => (y, -x) };
        vec![x + 5, y + 5]
    };
    let mut dt = op_empty::<K, 2>(&mut cx.tr, 0, GUARANTEES[1]);
    for &i in perm {
        let v = VIn::lattice(cx.fresh_uuid(), tf(base[i]), Some(i as i32));
        if !op_insert(&mut cx.tr, 0, &mut dt, &v, false) {
            return;
        }
    }
    if dt.number_of_vertices() != 5 {
        return;
    }
    // every k=2 flip of the result, each tried on the object itself and undone when it succeeded
    let cks: Vec<CellKey> = dt.tds().cell_keys().collect();
    for ck in cks {
        for i in 0..3u8 {
            if !dt.tds().contains_cell(ck) {
                break;
            }
            let mut probe = dt.clone();
            crate::ops2::op_clone(&mut cx.tr, 0, 1, &dt);
            let out = op_flip(&mut cx.tr, 1, &mut probe, &FlipArg::K2(ck, i), 0, "spine");
            if out.panicked {
                return;
            }
        }
    }
}

pub fn drive_flips(cx: &mut Ctx) {
    {
        let mut r = Rng::new(cx.seed * 9_000_041);
        let mut perms = crate::pure::permutations(5, if cx.thorough { 120 } else { 30 }, &mut r);
        perms.insert(0, vec![2, 0, 1, 3, 4]); // E first (the oldest vertex)
        perms.insert(1, vec![0, 1, 3, 4, 2]); // E last
        for (n, p) in perms.iter().enumerate() {
            for orient in 0..4 {
                if !cx.mine() {
                    continue;
                }
                if (n + orient) % 2 == 0 {
                    spine_case::<FastKernel<f64>>(cx, p, orient);
                } else {
                    spine_case::<RobustKernel<f64>>(cx, p, orient);
                }
            }
        }
    }
    for d in 2..=5usize {
        // D = 4 gets more cases: configurations in which the simplex an inverse move would insert
        // already exists far from the flipped star only arise there within short walks
        let per_dim = if cx.thorough { if d == 4 { 80 } else { 40 } } else if d == 4 { 16 } else { 6 };
        for i in 0..per_dim {
            let mut r = Rng::new(cx.seed * 9_000_011 + (d * 100_000 + i) as u64);
            if !cx.mine() {
                continue;
            }
            let k = (i / 2) % 2;
            dispatch!(d, k, flip_case(cx, &mut r, i));
        }
    }
    // one fixed hard configuration (found by a flip walk): a 4-D inverse k=3 move whose inserted
    // triangle already exists in cells disjoint from the flipped star
    // (the op list was recorded against the debug-profile construction of these points; in a profile
    // that builds a different triangulation it simply does not apply)
    if cx.part_k < 2 {
        crate::drivers2::drive_c07demo(cx);
    }
}

// ---------------------------------------------------------------------------------------
// C06: removal of every vertex, removal sequences down to nothing, interleaved inserts
// ---------------------------------------------------------------------------------------
fn remove_case<K: Kern<D>, const D: usize>(cx: &mut Ctx, r: &mut Rng, idx: usize) {
    let g = GUARANTEES[idx % 3];
    cx.start_case(format!("C06 remove D={D} k={} i={idx}", K::NAME));
    let pts = base_points(r, D, idx / 3, false);
    if pts.len() < D + 1 {
        return;
    }
    let Some(mut dt) = build_base::<K, D>(cx, &pts, g) else { return };
    let pol = match idx % 5 {
        1 => Some(DelaunayRepairPolicy::Never),
        2 => Some(DelaunayRepairPolicy::EveryN(NonZeroUsize::new(2).unwrap())),
        3 => Some(DelaunayRepairPolicy::EveryN(NonZeroUsize::new(3).unwrap())),
        _ => None,
    };
    if let Some(p) = pol {
        if !op_set_policy(&mut cx.tr, 0, &mut dt, PolicySet::Repair(p)) {
            return;
        }
    }
    // unknown vertex first
    let n = cx.fresh_uuid();
    if !op_remove(&mut cx.tr, 0, &mut dt, mk_uuid(n)) {
        return;
    }
    let mut removed: Vec<Vec<i64>> = Vec::new();
    let mut steps = 0;
    loop {
        steps += 1;
        if steps > 2 * max_points(D) + 4 {
            break;
        }
        let vs: Vec<_> = dt.vertices().map(|(_, v)| *v).collect();
        if vs.is_empty() {
            break;
        }
        if r.chance(2, 5) && !removed.is_empty() {
            // re-insert a previously removed position (fresh uuid)
            let p = removed.pop().unwrap();
            let v = VIn::lattice(cx.fresh_uuid(), p, Some(9));
            if !op_insert(&mut cx.tr, 0, &mut dt, &v, false) {
                return;
            }
            continue;
        }
        let v = *r.pick(&vs);
        let (m, pert, _, _) = cx.tr.coord_proj(v.point().coords());
        if !op_remove(&mut cx.tr, 0, &mut dt, v.uuid()) {
            return;
        }
        if !pert {
            removed.push(m);
        }
        if steps % 3 == 0 {
            op_verdicts(&mut cx.tr, 0, &dt, gpmax(D));
        }
    }
}

pub fn drive_remove(cx: &mut Ctx) {
    let per_dim = if cx.thorough { 80 } else { 12 };
    for d in 2..=5usize {
        for i in 0..per_dim {
            let mut r = Rng::new(cx.seed * 5_000_011 + (d * 100_000 + i) as u64);
            if !cx.mine() {
                continue;
            }
            let k = i % 2;
            dispatch!(d, k, remove_case(cx, &mut r, i));
        }
    }
}

// ---------------------------------------------------------------------------------------
// C04 / C08: flip walks away from Delaunay, verdicts after every step, then repair
// ---------------------------------------------------------------------------------------
fn repair_case<K: Kern<D>, const D: usize>(cx: &mut Ctx, r: &mut Rng, idx: usize) {
    let g = GUARANTEES[idx % 3];
    cx.start_case(format!("C08 repair D={D} k={} i={idx}", K::NAME));
    let hi = max_coord(D);
    let n = (D + 3 + r.below(3)).min(gpmax(D) + 1);
    let pts = if idx % 4 == 3 { random_points(r, D, n + 1, hi) } else { gp_points(r, D, n, hi) };
    if pts.len() < D + 2 {
        return;
    }
    let mode = idx % 3; // 0: flip walk  1: inserts with repair disabled  2: removals with repair disabled
    let mut dt: Dt<K, D>;
    if mode == 1 {
        dt = op_empty::<K, D>(&mut cx.tr, 0, g);
        if !op_set_policy(&mut cx.tr, 0, &mut dt, PolicySet::Repair(DelaunayRepairPolicy::Never)) {
            return;
        }
        for p in &pts {
            let v = VIn::lattice(cx.fresh_uuid(), p.clone(), None);
            if !op_insert(&mut cx.tr, 0, &mut dt, &v, false) {
                return;
            }
        }
    } else {
        let Some(d0) = build_base::<K, D>(cx, &pts, g) else { return };
        dt = d0;
    }
    op_verdicts(&mut cx.tr, 0, &dt, gpmax(D));
    if mode == 2 {
        if !op_set_policy(&mut cx.tr, 0, &mut dt, PolicySet::Repair(DelaunayRepairPolicy::Never)) {
            return;
        }
        let vs: Vec<_> = dt.vertices().map(|(_, v)| v.uuid()).collect();
        if vs.len() > D + 2 {
            let u = *r.pick(&vs);
            if !op_remove(&mut cx.tr, 0, &mut dt, u) {
                return;
            }
        }
    }
    if mode == 0 {
        // random walk of k2 / k3 flips (success not guaranteed; geometric validity is decided by the oracle)
        let walk = 2 + r.below(5);
        let mut tries = 0;
        let mut okc = 0;
        while okc < walk && tries < 60 {
            tries += 1;
            let cks = cell_keys(&dt);
            let ck = *r.pick(&cks);
            let fa = if D >= 3 && r.chance(1, 3) {
                let i = r.below(D + 1) as u8;
                let j = r.below(D + 1) as u8;
                if i == j {
                    continue;
                }
                FlipArg::K3(ck, i, j)
            } else {
                FlipArg::K2(ck, r.below(D + 1) as u8)
            };
            // steer: only flips whose new cells are non-degenerate and keep local convexity are
            // interesting for C04/C08; try on a clone first and keep those the library's own
            // Level-3 check accepts (steering only: the oracle recomputes everything)
            let mut probe = dt.clone();
            let ok = {
                use delaunay::triangulation::flips::BistellarFlips;
                let res = match &fa {
                    FlipArg::K2(c, i) => probe.flip_k2(delaunay::core::facet::FacetHandle::new(*c, *i)),
                    FlipArg::K3(c, i, j) => {
                        probe.flip_k3(delaunay::core::algorithms::flips::RidgeHandle::new(*c, *i, *j))
                    }
                    _ => unreachable!(),
                };
                res.is_ok() && probe.as_triangulation().is_valid().is_ok()
            };
            if !ok {
                continue;
            }
            let out = op_flip(&mut cx.tr, 0, &mut dt, &fa, 0, "walk");
            if out.panicked {
                return;
            }
            if out.ok {
                okc += 1;
                op_verdicts(&mut cx.tr, 0, &dt, gpmax(D));
            }
        }
    }
    op_verdicts(&mut cx.tr, 0, &dt, gpmax(D));
    let adv = idx % 2 == 1;
    let seeds = if idx % 4 == 1 { Some((3, 5)) } else { None };
    if !op_repair(&mut cx.tr, 0, &mut dt, adv, seeds, gpmax(D)) {
        return;
    }
    op_verdicts(&mut cx.tr, 0, &dt, gpmax(D));
}

pub fn drive_repair(cx: &mut Ctx) {
    let per_dim = if cx.thorough { 100 } else { 14 };
    for d in 2..=5usize {
        for i in 0..per_dim {
            let mut r = Rng::new(cx.seed * 3_000_017 + (d * 100_000 + i) as u64);
            if !cx.mine() {
                continue;
            }
            let k = (i / 2) % 2;
            dispatch!(d, k, repair_case(cx, &mut r, i));
        }
    }
}

// ---------------------------------------------------------------------------------------
// C09 / C11: TLC-generated histories of the cache model, replayed with hook observation
// ---------------------------------------------------------------------------------------
pub fn drive_caches(cx: &mut Ctx, hist_file: &str, dim: usize) {
    let text = std::fs::read_to_string(hist_file).expect("cannot read histories");
    for (i, line) in text.lines().enumerate() {
        if line.trim().is_empty() {
            continue;
        }
        if !cx.mine() {
            continue;
        }
        let v: serde_json::Value = serde_json::from_str(line).expect("bad history line");
        let hist = v.as_array().cloned().unwrap_or_default();
        cx.start_case(format!("caches D={dim} hist#{i}"));
        let k = i % 2;
        let mut ctr = cx.uuid_ctr;
        match (dim, k) {
            (2, 0) => crate::caches::run_history::<FastKernel<f64>, 2>(&mut cx.tr, &hist, &mut ctr),
            (2, _) => crate::caches::run_history::<RobustKernel<f64>, 2>(&mut cx.tr, &hist, &mut ctr),
            (_, 0) => crate::caches::run_history::<FastKernel<f64>, 3>(&mut cx.tr, &hist, &mut ctr),
            (_, _) => crate::caches::run_history::<RobustKernel<f64>, 3>(&mut cx.tr, &hist, &mut ctr),
        }
        cx.uuid_ctr = ctr;
    }
}
