//! spec -> implementation replay for the insertion transaction model (spec/InsertTxn.tla):
//! every behaviour TLC generates (policies, starting count, environment choices) is forced on the real
//! library with failpoint scripts and the observed call is logged next to the script.
use crate::drivers::Ctx;
use crate::ops::*;
use crate::proj::*;
use delaunay::core::delaunay_triangulation::{DelaunayCheckPolicy, DelaunayRepairPolicy};
use delaunay::core::operations::InsertionOutcome;
use delaunay::core::util::verif_failpoints as fp;
use delaunay::geometry::kernel::{FastKernel, RobustKernel};
use serde_json::{json, Value};
use std::num::NonZeroUsize;
use uuid::Uuid;

const GP2: [[i64; 2]; 6] = [[0, 0], [7, 1], [3, 8], [9, 6], [1, 5], [6, 4]];
const GP3: [[i64; 3]; 6] = [[0, 0, 0], [5, 1, 0], [1, 6, 1], [2, 2, 7], [4, 5, 5], [6, 3, 2]];

fn txn_case<K: Kern<D>, const D: usize>(cx: &mut Ctx, script: &Value, base_pts: &[Vec<i64>], newp: &[i64]) {
    let cfg = &script["cfg"];
    let count0 = script["count0"].as_u64().unwrap() as usize;
    let choices: Vec<String> = script["choices"].as_array().unwrap().iter().map(|x| x.as_str().unwrap().to_string()).collect();
    let g = GUARANTEES[1];
    // base: count0 incremental insertions with all post-steps off, so that the insertion count is count0
    let mut dt = Dt::<K, D>::with_empty_kernel_and_topology_guarantee(K::default(), g);
    dt.set_delaunay_repair_policy(DelaunayRepairPolicy::Never);
    dt.set_delaunay_check_policy(DelaunayCheckPolicy::EndOnly);
    for p in base_pts.iter().take(count0) {
        let v = VIn::lattice(cx.fresh_uuid(), p.clone(), None);
        if dt.insert(v.vertex::<D>(0)).is_err() {
            return;
        }
    }
    if dt.verif_insertion_count() != count0 {
        return;
    }
    let n = NonZeroUsize::new(cfg["n"].as_u64().unwrap() as usize).unwrap();
    dt.set_delaunay_repair_policy(match cfg["repair"].as_str().unwrap() {
        "Never" => DelaunayRepairPolicy::Never,
        "Every" => DelaunayRepairPolicy::EveryInsertion,
        _ => DelaunayRepairPolicy::EveryN(n),
    });
    dt.set_delaunay_check_policy(if cfg["check"] == "EveryN" { DelaunayCheckPolicy::EveryN(n) } else { DelaunayCheckPolicy::EndOnly });
    // the environment's choices as a failpoint script
    let dup = choices.first().is_some_and(|c| c == "dup");
    // entries for one site are consumed in order (an entry starts counting hits when the one before it has
    // fired), so each entry counts the hits since the previous firing of its site
    let mut hits_n = 0usize; // hits of tri.insert.fail_nonretryable since it last fired
    let mut hits_r = 0usize;
    fp::arm("verif.none", 1);
    for c in &choices {
        match c.as_str() {
            "fN" => {
                hits_n += 1;
                fp::arm_also("tri.insert.fail_nonretryable", hits_n, false);
                hits_n = 0;
            }
            "fR" => {
                hits_n += 1;
                hits_r += 1;
                fp::arm_also("tri.insert.fail_retryable", hits_r, false);
                hits_r = 0;
            }
            "ok" => {
                hits_n += 1;
                hits_r += 1;
            }
            _ => {}
        }
    }
    // post-steps: the choices after the attempts, in order repair (if scheduled) then check (if scheduled)
    let post: Vec<&String> = choices.iter().skip_while(|c| matches!(c.as_str(), "fN" | "fR" | "dup")).skip(1).collect();
    let cells = cfg["cells"].as_bool().unwrap();
    let nn = n.get();
    let c1 = count0 + 1;
    let repair_sched = cells && match cfg["repair"].as_str().unwrap() { "Never" => false, "Every" => true, _ => c1 % nn == 0 };
    let check_sched = cells && cfg["check"] == "EveryN" && c1 % nn == 0;
    let mut pi = 0;
    if repair_sched {
        if post.get(pi).is_some_and(|c| c.as_str() == "fail") {
            fp::arm_also("repair.postcondition", 1, true);
        }
        pi += 1;
    }
    if check_sched && post.get(pi).is_some_and(|c| c.as_str() == "fail") {
        fp::arm_also("dt.insert.check_fails", 1, false);
    }
    let target: Vec<i64> = if dup { base_pts[0].clone() } else { newp.to_vec() };
    let v = VIn::lattice(cx.fresh_uuid(), target, Some(5));
    let uuid = v.uuid;
    let before = cx.tr.project(&dt);
    let hint0 = dt.verif_locate_hint();
    fp::start_log();
    let vert = v.vertex::<D>(0);
    let r = cx.tr.guard("insert (transaction script)", || match dt.insert_with_statistics(vert) {
        Ok((InsertionOutcome::Inserted { vertex_key, .. }, st)) => ("Inserted".to_string(), Some(vertex_key), st.attempts as i64),
        Ok((InsertionOutcome::Skipped { .. }, st)) => ("Skipped".to_string(), None, st.attempts as i64),
        Err(_) => ("Err".to_string(), None, -1),
    });
    let log = fp::take_log();
    let fired = fp::disarm_all();
    // the top-level attempts come first; once a repair runs it may rebuild by re-inserting (nested calls pass the
    // same sites), so only the leading insertion sites are the call's own
    let sites: Vec<&str> = log.iter().copied().take_while(|s| s.starts_with("tri.insert.")).collect();
    let check_seen = log.iter().skip(sites.len()).any(|s| *s == "dt.insert.check_fails");
    let repair_fired = fired.iter().any(|s| s.starts_with("repair."));
    match r {
        Guarded::Done((kind, key, attempts)) => {
            let after = cx.tr.project(&dt);
            let changed = before["verts"] != after["verts"] || before["cells"] != after["cells"];
            let has = dt.vertices().any(|(_, x)| x.uuid() == uuid);
            let idx = match (key, dt.verif_spatial_index_keys()) {
                (Some(k), Some(keys)) => keys.contains(&k),
                _ => false,
            };
            let hint = if dt.verif_locate_hint() == hint0 { "old" } else { "new" };
            let dcount = dt.verif_insertion_count() as i64 - count0 as i64;
            cx.tr.emit("Txn", 0, json!({"D": D, "kernel": K::NAME, "script": script}),
                json!({"kind": kind, "attempts": attempts, "sites": sites, "fired": fired.iter().take(4).collect::<Vec<_>>(), "dcount": dcount, "has": has, "idx": idx,
                       "hint": hint, "changed": changed, "repair_sched": repair_sched, "check_sched": check_sched,
                       "check_seen": check_seen, "repair_fired": repair_fired}), None, false);
        }
        Guarded::Panicked(msg) => {
            cx.tr.emit("Txn", 0, json!({"D": D, "kernel": K::NAME, "script": script}), json!({"kind": "Panic", "msg": msg}), None, true);
        }
    }
}

pub fn drive_inserttxn(cx: &mut Ctx, hist: &str) {
    let text = std::fs::read_to_string(hist).expect("cannot read scripts");
    for line in text.lines() {
        if line.trim().is_empty() {
            continue;
        }
        if !cx.mine() {
            continue;
        }
        let script: Value = serde_json::from_str(line).expect("bad script line");
        let choices: Vec<&str> = script["choices"].as_array().unwrap().iter().map(|x| x.as_str().unwrap()).collect();
        // natural failures cannot be forced; a duplicate can only be the first thing that happens
        if choices.iter().any(|c| *c == "R" || *c == "N") || choices.iter().skip(1).any(|c| *c == "dup") {
            continue;
        }
        let cells = script["cfg"]["cells"].as_bool().unwrap();
        let count0 = script["count0"].as_u64().unwrap() as usize;
        if choices.first() == Some(&"dup") && count0 == 0 {
            continue;
        }
        cx.tr.tag = format!("C03 inserttxn cells={cells} count0={count0}");
        let k = cx.case % 2;
        // which dimension realises (cells, count0): cells need count0 >= D + 1 vertices, no cells count0 + 1 <= D
        if (cells && (3..=5).contains(&count0)) || (!cells && count0 <= 1) {
            let base: Vec<Vec<i64>> = GP2.iter().map(|p| p.to_vec()).collect();
            if k == 0 { txn_case::<FastKernel<f64>, 2>(cx, &script, &base, &[4, 3]) } else { txn_case::<RobustKernel<f64>, 2>(cx, &script, &base, &[4, 3]) }
        } else if (cells && (4..=5).contains(&count0)) || (!cells && count0 <= 2) {
            let base: Vec<Vec<i64>> = GP3.iter().map(|p| p.to_vec()).collect();
            if k == 0 { txn_case::<FastKernel<f64>, 3>(cx, &script, &base, &[3, 3, 2]) } else { txn_case::<RobustKernel<f64>, 3>(cx, &script, &base, &[3, 3, 2]) }
        }
    }
}

// ---------------------------------------------------------------------------------------
// removal transaction (spec/RemoveTxn.tla)
// ---------------------------------------------------------------------------------------
fn removetxn_case<K: Kern<D>, const D: usize>(cx: &mut Ctx, script: &Value, base_pts: &[Vec<i64>], inner: &[i64]) {
    let cfg = &script["cfg"];
    let choices: Vec<String> = script["choices"].as_array().unwrap().iter().map(|x| x.as_str().unwrap().to_string()).collect();
    let g = GUARANTEES[1];
    let fast = choices.first().is_some_and(|c| c != "k1no");
    // base: Delaunay triangulation of the base points (built with the default policies)
    let input = cx.inputs(base_pts, false);
    let vs: Vec<_> = input.iter().map(|v| v.vertex::<D>(0)).collect();
    let Ok(mut dt) = Dt::<K, D>::with_topology_guarantee(&K::default(), &vs, g) else { return };
    dt.set_delaunay_repair_policy(DelaunayRepairPolicy::Never);
    // the vertex to remove: for the fast path one whose star is a simplex (inserted strictly inside a cell with
    // repair off), else a base vertex with a larger star
    let target_uuid = if fast {
        use delaunay::triangulation::flips::BistellarFlips;
        let v = VIn::lattice(cx.fresh_uuid(), inner.to_vec(), Some(9));
        let vert = v.vertex::<D>(0);
        let Ok(delaunay::core::algorithms::locate::LocateResult::InsideCell(ck)) =
            delaunay::core::algorithms::locate::locate(dt.tds(), &K::default(), vert.point(), None)
        else {
            return;
        };
        if dt.flip_k1_insert(ck, vert).is_err() {
            return;
        }
        v.uuid
    } else {
        // the vertex with the largest star
        let mut best = None;
        for (vk, v) in dt.vertices() {
            let deg = dt.cells().filter(|(_, c)| c.vertices().contains(&vk)).count();
            if best.is_none_or(|(d, _)| deg > d) {
                best = Some((deg, v.uuid()));
            }
        }
        let Some((deg, u)) = best else { return };
        if deg <= D + 1 {
            return;
        }
        u
    };
    let Some((tk, tv)) = find_vertex(&dt, target_uuid) else { return };
    let star = dt.cells().filter(|(_, c)| c.vertices().contains(&tk)).count();
    if fast != (star == D + 1) {
        return;
    }
    dt.set_delaunay_repair_policy(if cfg["repair"] == "Never" { DelaunayRepairPolicy::Never } else { DelaunayRepairPolicy::EveryInsertion });
    fp::arm("verif.none", 1);
    let mut it = choices.iter();
    match it.next().map(String::as_str) {
        Some("k1wire") => fp::arm_also("flip.after_insert_cells", 1, false),
        Some("k1late") => fp::arm_also("flip.after_remove_cells", 1, false),
        _ => {}
    }
    if !fast {
        for site in ["tri.remove.after_fill", "tri.remove.after_remove_cells", "tri.remove.after_remove_vertex"] {
            match it.next().map(String::as_str) {
                Some("fail") => {
                    fp::arm_also(site, 1, false);
                    break;
                }
                Some("ok") => {}
                _ => break,
            }
        }
    }
    if choices.last().is_some_and(|c| c == "fail") && choices.len() >= 2 && cfg["repair"] != "Never" {
        // the last choice of a script that reaches the repair is the repair's
        let reaches_repair = choices.iter().take(choices.len() - 1).all(|c| c == "ok" || c.starts_with("k1"));
        if reaches_repair && (fast || choices.len() == 6) {
            fp::arm_also("repair.postcondition", 1, true);
        }
    }
    let before = cx.tr.project(&dt);
    let gen0 = dt.tds().generation();
    let hull = delaunay::geometry::algorithms::convex_hull::ConvexHull::from_triangulation(dt.as_triangulation()).ok();
    fp::start_log();
    let r = cx.tr.guard("remove_vertex (transaction script)", || match dt.remove_vertex(&tv) {
        Ok(_) => "Ok".to_string(),
        Err(_) => "Err".to_string(),
    });
    let log = fp::take_log();
    let fired = fp::disarm_all();
    // the call's own sites: at most the three sites of the inverse k=1 flip, then the removal sites; later flip
    // sites belong to the repair
    let mut sites: Vec<&str> = Vec::new();
    let mut i = 0;
    while i < log.len() && i < 3 && log[i].starts_with("flip.") {
        sites.push(log[i]);
        i += 1;
    }
    while i < log.len() && log[i].starts_with("tri.remove.") {
        sites.push(log[i]);
        i += 1;
    }
    match r {
        Guarded::Done(kind) => {
            let after = cx.tr.project(&dt);
            let changed = before["verts"] != after["verts"] || before["cells"] != after["cells"];
            let has = find_vertex(&dt, target_uuid).is_some();
            cx.tr.emit("RTxn", 0, json!({"D": D, "kernel": K::NAME, "script": script, "star": star}),
                json!({"kind": kind, "sites": sites, "fired": fired.iter().take(4).collect::<Vec<_>>(), "has": has, "changed": changed,
                       "gen_changed": dt.tds().generation() != gen0,
                       "hull_stale": hull.as_ref().is_none_or(|hl| !hl.is_valid_for_triangulation(dt.as_triangulation())),
                       "repair_fired": fired.iter().any(|s| s.starts_with("repair."))}), None, false);
        }
        Guarded::Panicked(msg) => {
            cx.tr.emit("RTxn", 0, json!({"D": D, "kernel": K::NAME, "script": script, "star": star}), json!({"kind": "Panic", "msg": msg}), None, true);
        }
    }
}

pub fn drive_removetxn(cx: &mut Ctx, hist: &str) {
    let text = std::fs::read_to_string(hist).expect("cannot read scripts");
    for line in text.lines() {
        if line.trim().is_empty() {
            continue;
        }
        let script: Value = serde_json::from_str(line).expect("bad script line");
        let choices: Vec<&str> = script["choices"].as_array().unwrap().iter().map(|x| x.as_str().unwrap()).collect();
        // cells must remain (the zero-cell removal is KF-C06-1); a failing Level-3 validation cannot be forced
        if !script["cfg"]["cells"].as_bool().unwrap() || (choices.first() == Some(&"k1no") && choices.get(4) == Some(&"fail")) {
            continue;
        }
        for d in 2..=3usize {
            for k in 0..2usize {
                if !cx.mine() {
                    continue;
                }
                cx.tr.tag = format!("C03 removetxn D={d} {:?}", choices);
                match (d, k) {
                    (2, 0) => removetxn_case::<FastKernel<f64>, 2>(cx, &script, &GP2.iter().map(|p| p.to_vec()).collect::<Vec<_>>(), &[4, 3]),
                    (2, _) => removetxn_case::<RobustKernel<f64>, 2>(cx, &script, &GP2.iter().map(|p| p.to_vec()).collect::<Vec<_>>(), &[4, 3]),
                    (_, 0) => removetxn_case::<FastKernel<f64>, 3>(cx, &script, &GP3.iter().map(|p| p.to_vec()).collect::<Vec<_>>(), &[3, 3, 2]),
                    (_, _) => removetxn_case::<RobustKernel<f64>, 3>(cx, &script, &GP3.iter().map(|p| p.to_vec()).collect::<Vec<_>>(), &[3, 3, 2]),
                }
            }
        }
    }
}

// ---------------------------------------------------------------------------------------
// flip-application transaction (spec/FlipTxn.tla)
// ---------------------------------------------------------------------------------------
fn cell_sets<K: Kern<D>, const D: usize>(dt: &Dt<K, D>) -> std::collections::BTreeSet<Vec<Uuid>> {
    dt.cells()
        .map(|(_, c)| {
            let mut vs: Vec<Uuid> = c.vertices().iter().filter_map(|&vk| dt.tds().get_vertex_by_key(vk).map(|v| v.uuid())).collect();
            vs.sort();
            vs
        })
        .collect()
}

fn fliptxn_case<K: Kern<D>, const D: usize>(cx: &mut Ctx, script: &Value, base_pts: &[Vec<i64>], inner: &[i64]) {
    use delaunay::core::algorithms::locate::{locate, LocateResult};
    use delaunay::core::facet::FacetHandle;
    use delaunay::core::triangulation_data_structure::CellKey;
    use delaunay::triangulation::flips::BistellarFlips;
    let kind = script["cfg"]["kind"].as_str().unwrap().to_string();
    let choices: Vec<String> = script["choices"].as_array().unwrap().iter().map(|x| x.as_str().unwrap().to_string()).collect();
    let bad = choices.first().is_some_and(|c| c == "bad");
    let input = cx.inputs(base_pts, false);
    let vs: Vec<_> = input.iter().map(|v| v.vertex::<D>(0)).collect();
    let Ok(mut dt) = Dt::<K, D>::with_topology_guarantee(&K::default(), &vs, GUARANTEES[1]) else { return };
    dt.set_delaunay_repair_policy(DelaunayRepairPolicy::Never);
    let newv = VIn::lattice(cx.fresh_uuid(), inner.to_vec(), Some(9));
    let vert = newv.vertex::<D>(0);
    let Ok(LocateResult::InsideCell(ck)) = locate(dt.tds(), &K::default(), vert.point(), None) else { return };
    // the handle of the call
    enum H<const D: usize> {
        Ins(CellKey),
        K2(FacetHandle),
        Rem(delaunay::core::triangulation_data_structure::VertexKey),
    }
    let mut watch = newv.uuid; // k1ins: the new vertex; k1rem: the target vertex
    let h: H<D> = match kind.as_str() {
        "k1ins" => {
            if bad {
                // a cell key that is no longer live: the key of a cell a probe flip removed (same slot map layout)
                let mut probe = dt.clone();
                let pv = VIn::lattice(cx.fresh_uuid(), inner.to_vec(), Some(8)).vertex::<D>(0);
                if probe.flip_k1_insert(ck, pv).is_err() {
                    return;
                }
                let Some((pk, _)) = find_vertex(&probe, pv.uuid()) else { return };
                if probe.flip_k1_remove(pk).is_err() {
                    return;
                }
                dt = probe; // same content as before, `ck` now names a removed cell
                if dt.tds().get_cell(ck).is_some() {
                    return;
                }
            }
            H::Ins(ck)
        }
        "k2" => {
            let mut found = None;
            'o: for (c, cell) in dt.cells() {
                for i in 0..=D {
                    let hull = cell.neighbors().is_none_or(|n| n.get(i).is_none_or(|x| x.is_none()));
                    if bad {
                        if hull {
                            found = Some(FacetHandle::new(c, i as u8));
                            break 'o;
                        }
                    } else if !hull {
                        let mut probe = dt.clone();
                        if probe.flip_k2(FacetHandle::new(c, i as u8)).is_ok() && probe.as_triangulation().is_valid().is_ok() {
                            found = Some(FacetHandle::new(c, i as u8));
                            break 'o;
                        }
                    }
                }
            }
            let Some(f) = found else { return };
            H::K2(f)
        }
        _ => {
            if bad {
                // a vertex whose star is not a simplex
                let mut best = None;
                for (vk, v) in dt.vertices() {
                    let deg = dt.cells().filter(|(_, c)| c.vertices().contains(&vk)).count();
                    if deg > D + 1 && best.is_none() {
                        best = Some((vk, v.uuid()));
                    }
                }
                let Some((vk, u)) = best else { return };
                watch = u;
                H::Rem(vk)
            } else {
                if dt.flip_k1_insert(ck, vert).is_err() {
                    return;
                }
                let Some((vk, _)) = find_vertex(&dt, newv.uuid) else { return };
                H::Rem(vk)
            }
        }
    };
    fp::arm("verif.none", 1);
    for (c, site) in choices.iter().skip(1).zip(["flip.after_insert_cells", "flip.after_wire", "flip.after_remove_cells"]) {
        if c == "fail" {
            fp::arm_also(site, 1, false);
            break;
        }
    }
    let before = cx.tr.project(&dt);
    let cells0 = cell_sets(&dt);
    let gen0 = dt.tds().generation();
    let hull = delaunay::geometry::algorithms::convex_hull::ConvexHull::from_triangulation(dt.as_triangulation()).ok();
    fp::start_log();
    let r = cx.tr.guard("explicit flip (transaction script)", || {
        let res = match &h {
            H::Ins(c) => dt.flip_k1_insert(*c, vert),
            H::K2(f) => dt.flip_k2(*f),
            H::Rem(vk) => dt.flip_k1_remove(*vk),
        };
        if res.is_ok() { "Ok".to_string() } else { "Err".to_string() }
    });
    let log = fp::take_log();
    let _ = fp::disarm_all();
    let sites: Vec<&str> = log.iter().copied().filter(|s| s.starts_with("flip.")).collect();
    let args = json!({"D": D, "kernel": K::NAME, "script": script});
    match r {
        Guarded::Done(kindr) => {
            let after = cx.tr.project(&dt);
            let cells1 = cell_sets(&dt);
            let changed = before["verts"] != after["verts"] || before["cells"] != after["cells"];
            let watch_in = find_vertex(&dt, watch).is_some();
            let old_in = cells0.is_subset(&cells1);
            let new_in = cells1.difference(&cells0).next().is_some();
            let stale = hull.as_ref().map(|hl| !hl.is_valid_for_triangulation(dt.as_triangulation()));
            cx.tr.emit("FTxn", 0, args,
                json!({"kind": kindr, "sites": sites, "changed": changed, "watch_in": watch_in, "old_in": old_in, "new_in": new_in,
                       "gen_changed": dt.tds().generation() != gen0, "hull_stale": stale,
                       "valid": dt.as_triangulation().is_valid().is_ok()}), None, false);
        }
        Guarded::Panicked(msg) => {
            cx.tr.emit("FTxn", 0, args, json!({"kind": "Panic", "msg": msg}), None, true);
        }
    }
}

pub fn drive_fliptxn(cx: &mut Ctx, hist: &str) {
    let text = std::fs::read_to_string(hist).expect("cannot read scripts");
    for line in text.lines() {
        if line.trim().is_empty() {
            continue;
        }
        let script: Value = serde_json::from_str(line).expect("bad script line");
        let choices: Vec<&str> = script["choices"].as_array().unwrap().iter().map(|x| x.as_str().unwrap()).collect();
        for d in 2..=3usize {
            for k in 0..2usize {
                if !cx.mine() {
                    continue;
                }
                cx.tr.tag = format!("C03 fliptxn D={d} {} {:?}", script["cfg"]["kind"].as_str().unwrap(), choices);
                let g2: Vec<Vec<i64>> = GP2.iter().map(|p| p.to_vec()).collect();
                let g3: Vec<Vec<i64>> = GP3.iter().map(|p| p.to_vec()).collect();
                match (d, k) {
                    (2, 0) => fliptxn_case::<FastKernel<f64>, 2>(cx, &script, &g2, &[4, 3]),
                    (2, _) => fliptxn_case::<RobustKernel<f64>, 2>(cx, &script, &g2, &[4, 3]),
                    (_, 0) => fliptxn_case::<FastKernel<f64>, 3>(cx, &script, &g3, &[3, 3, 2]),
                    (_, _) => fliptxn_case::<RobustKernel<f64>, 3>(cx, &script, &g3, &[3, 3, 2]),
                }
            }
        }
    }
}
