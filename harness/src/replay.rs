//! Re-execution of a recorded case (Construct / Empty / SetPolicy / Insert / Remove / Repair /
//! Verdicts events; Flip events are re-executed through the abstract handle description).
use crate::ops::*;
use crate::proj::*;
use delaunay::core::delaunay_triangulation::{DelaunayCheckPolicy, DelaunayRepairPolicy};
use delaunay::core::triangulation::{TopologyGuarantee, ValidationPolicy};
use serde_json::Value;
use std::collections::HashMap;
use std::num::NonZeroUsize;

fn guarantee(s: &str) -> TopologyGuarantee {
    match s {
        "Pseudomanifold" => TopologyGuarantee::Pseudomanifold,
        "PLManifoldStrict" => TopologyGuarantee::PLManifoldStrict,
        _ => TopologyGuarantee::PLManifold,
    }
}

fn opts(s: &str) -> Opts {
    // "o3d1s0r0"
    let b: Vec<usize> = s.chars().filter(|c| c.is_ascii_digit()).map(|c| c as usize - '0' as usize).collect();
    if b.len() == 4 { Opts { order: b[0], dedup: b[1], simplex: b[2], retry: b[3] } } else { Opts::default_like() }
}

fn ctor(s: &str) -> Ctor {
    match s {
        "WithKernel" => Ctor::WithKernel,
        "WithOptions" => Ctor::WithOptions,
        "WithOptionsStats" => Ctor::WithOptionsStats,
        "Builder" => Ctor::Builder,
        _ => Ctor::WithGuarantee,
    }
}

fn policy(s: &str) -> Option<PolicySet> {
    let n = |t: &str| -> NonZeroUsize {
        let d: String = t.chars().filter(|c| c.is_ascii_digit()).collect();
        NonZeroUsize::new(d.parse().unwrap_or(1)).unwrap()
    };
    Some(if s.starts_with("Validation(Never") {
        PolicySet::Validation(ValidationPolicy::Never)
    } else if s.starts_with("Validation(OnSuspicion") {
        PolicySet::Validation(ValidationPolicy::OnSuspicion)
    } else if s.starts_with("Validation(Always") {
        PolicySet::Validation(ValidationPolicy::Always)
    } else if s.starts_with("Validation(DebugOnly") {
        PolicySet::Validation(ValidationPolicy::DebugOnly)
    } else if s.starts_with("Repair(Never") {
        PolicySet::Repair(DelaunayRepairPolicy::Never)
    } else if s.starts_with("Repair(EveryInsertion") {
        PolicySet::Repair(DelaunayRepairPolicy::EveryInsertion)
    } else if s.starts_with("Repair(EveryN") {
        PolicySet::Repair(DelaunayRepairPolicy::EveryN(n(s)))
    } else if s.starts_with("Check(EndOnly") {
        PolicySet::Check(DelaunayCheckPolicy::EndOnly)
    } else if s.starts_with("Check(EveryN") {
        PolicySet::Check(DelaunayCheckPolicy::EveryN(n(s)))
    } else if s.starts_with("Guarantee(") {
        PolicySet::Guarantee(guarantee(s.trim_start_matches("Guarantee(").trim_end_matches(')')))
    } else {
        return None;
    })
}

pub fn replay_case<K: Kern<D>, const D: usize>(tr: &mut Tracer, evs: &[Value]) {
    let _ = replay_case_ret::<K, D>(tr, evs);
}

pub fn replay_case_ret<K: Kern<D>, const D: usize>(tr: &mut Tracer, evs: &[Value]) -> HashMap<u64, Dt<K, D>> {
    let mut objs: HashMap<u64, Dt<K, D>> = HashMap::new();
    // abstract vertex id -> uuid number (ids are re-created in the same order, so the new trace
    // uses the same small integers)
    let vin = |a: &Value| -> VIn {
        let m: Vec<i64> = match a["mw"].as_str() {
            Some(w) => w.split(',').map(|x| x.parse().unwrap()).collect(),
            None => a["m"].as_array().unwrap().iter().map(|x| x.as_i64().unwrap()).collect(),
        };
        let data = a["data"].as_i64().filter(|&d| d >= 0).map(|d| d as i32);
        let cls = match a["cls"].as_str().unwrap_or("lattice") {
            "near" => "near",
            "far" => "far",
            _ => "lattice",
        };
        let off = match cls {
            "near" => 2f64.powi(-36),
            "far" => 2f64.powi(-30),
            _ => 0.0,
        };
        VIn { uuid: mk_uuid(1_000_000 + a["u"].as_u64().unwrap()), m, off, cls, data }
    };
    for e in evs {
        if std::env::var_os("VERIF_REPLAY_INDEX").is_some() {
            for (o, dt) in &objs {
                let keys = dt.verif_spatial_index_keys();
                let live: Vec<_> = dt.tds().vertex_keys().collect();
                let missing: Vec<_> = match &keys {
                    Some(ks) => live.iter().filter(|k| !ks.contains(k)).map(|k| tr.vkey_id(dt.tds(), *k)).collect(),
                    None => vec![],
                };
                eprintln!("   live keys {:?}", live);
                eprintln!("   index keys {:?}", keys);
                eprintln!("before {:>10} obj {o}: index {} usable {:?} live {} missing-from-index {:?} count {}", e["ev"].as_str().unwrap_or(""),
                    keys.as_ref().map_or("None".to_string(), |k| k.len().to_string()), dt.verif_spatial_index_usable(), live.len(), missing, dt.verif_insertion_count());
            }
        }
        let obj = e["obj"].as_u64().unwrap_or(0);
        tr.tag = e["tag"].as_str().unwrap_or("").to_string();
        match e["ev"].as_str().unwrap_or("") {
            "Reset" => {
                objs.clear();
                tr.reset();
            }
            "Construct" => {
                let a = &e["args"];
                let input: Vec<VIn> = a["input"].as_array().unwrap().iter().map(vin).collect();
                tr.dkey = a["dkey"].as_str().unwrap_or("").to_string();
                if !tr.dkey.is_empty() {
                    tr.dkey.push_str("");
                }
                let built = op_construct::<K, D>(
                    tr,
                    obj as usize,
                    ctor(a["ctor"].as_str().unwrap_or("")),
                    guarantee(a["g"].as_str().unwrap_or("")),
                    opts(a["opts"].as_str().unwrap_or("")),
                    &input,
                );
                tr.dkey.clear();
                if let Some(dt) = built {
                    // what do the library's own validators say about what it just returned?
                    if std::env::var_os("VERIF_REPLAY_VERDICTS").is_some() {
                        op_verdicts(tr, obj as usize, &dt, 7);
                    }
                    objs.insert(obj, dt);
                }
            }
            "Empty" => {
                let dt = op_empty::<K, D>(tr, obj as usize, guarantee(e["args"]["g"].as_str().unwrap_or("")));
                objs.insert(obj, dt);
            }
            "SetPolicy" => {
                if let (Some(dt), Some(p)) = (objs.get_mut(&obj), policy(e["args"]["set"].as_str().unwrap_or(""))) {
                    op_set_policy(tr, obj as usize, dt, p);
                }
            }
            "Insert" => {
                if let Some(dt) = objs.get_mut(&obj) {
                    let v = vin(&e["args"]);
                    op_insert(tr, obj as usize, dt, &v, e["args"]["stats"].as_bool().unwrap_or(false));
                }
            }
            "Remove" => {
                if let Some(dt) = objs.get_mut(&obj) {
                    let u = mk_uuid(1_000_000 + e["args"]["v"].as_u64().unwrap());
                    op_remove(tr, obj as usize, dt, u);
                }
            }
            "Repair" => {
                if let Some(dt) = objs.get_mut(&obj) {
                    let a = &e["args"];
                    let seeds = if a["seeded"].as_bool().unwrap_or(false) { Some((3, 5)) } else { None };
                    op_repair(tr, obj as usize, dt, a["adv"].as_bool().unwrap_or(false), seeds, a["gpmax"].as_u64().unwrap_or(7) as usize);
                }
            }
            "Verdicts" => {
                if let Some(dt) = objs.get(&obj) {
                    op_verdicts(tr, obj as usize, dt, e["res"]["gpmax"].as_u64().unwrap_or(7) as usize);
                }
            }
            _ => {}
        }
    }
    objs
}
