//! Pure-function families: predicates (C12), measures (C18), Hilbert / orderings / dedup (C17),
//! toroidal wrapping (C16 canonicalisation).  One event per input tuple; validated by
//! spec/Trace_Pure.tla against exact integer arithmetic.

use crate::drivers::Ctx;
use crate::ops2::lattice_point;
use crate::points::*;
use crate::proj::*;
use delaunay::geometry::kernel::{FastKernel, Kernel, RobustKernel};
use delaunay::geometry::point::Point;
use delaunay::geometry::traits::coordinate::Coordinate;
use delaunay::geometry::predicates::{InSphere, Orientation, insphere, insphere_distance, insphere_lifted, simplex_orientation};
use delaunay::geometry::robust_predicates::{config_presets, robust_insphere, robust_orientation};
use serde_json::{Value, json};

fn o2i(o: Orientation) -> i64 {
    match o {
        Orientation::NEGATIVE => -1,
        Orientation::DEGENERATE => 0,
        Orientation::POSITIVE => 1,
    }
}
fn s2i(o: InSphere) -> i64 {
    match o {
        InSphere::OUTSIDE => -1,
        InSphere::BOUNDARY => 0,
        InSphere::INSIDE => 1,
    }
}
const ERR: i64 = 9;

/// all permutations of 0..n (n <= 4) or `cap` seeded random ones
pub fn permutations(n: usize, cap: usize, r: &mut Rng) -> Vec<Vec<usize>> {
    if n <= 4 {
        let mut out = Vec::new();
        let mut p: Vec<usize> = (0..n).collect();
        fn rec(k: usize, p: &mut Vec<usize>, out: &mut Vec<Vec<usize>>) {
            if k == p.len() {
                out.push(p.clone());
                return;
            }
            for i in k..p.len() {
                p.swap(k, i);
                rec(k + 1, p, out);
                p.swap(k, i);
            }
        }
        rec(0, &mut p, &mut out);
        out
    } else {
        let mut out = vec![(0..n).collect::<Vec<usize>>()];
        for _ in 1..cap {
            let mut p: Vec<usize> = (0..n).collect();
            r.shuffle(&mut p);
            out.push(p);
        }
        out
    }
}

fn pred_event<const D: usize>(tr: &mut Tracer, pts: &[Vec<i64>], q: &[i64], s: i32, perms: &[Vec<usize>], tag: &str) {
    let fk = FastKernel::<f64>::new();
    let rk = RobustKernel::<f64>::new();
    let cfg = config_presets::general_triangulation::<f64>();
    let qp: Point<f64, D> = lattice_point::<D>(q, s);
    let mut rows: Vec<Value> = Vec::new();
    let mut panicked = false;
    for p in perms {
        let ps: Vec<Point<f64, D>> = p.iter().map(|&i| lattice_point::<D>(&pts[i], s)).collect();
        let g = tr.guard("predicates", || {
            let fo = <FastKernel<f64> as Kernel<D>>::orientation(&fk, &ps).unwrap_or(ERR as i32) as i64;
            let ro = <RobustKernel<f64> as Kernel<D>>::orientation(&rk, &ps).unwrap_or(ERR as i32) as i64;
            let so = simplex_orientation(&ps).map_or(ERR, o2i);
            let rof = robust_orientation(&ps, &cfg).map_or(ERR, o2i);
            let fi = <FastKernel<f64> as Kernel<D>>::in_sphere(&fk, &ps, &qp).unwrap_or(ERR as i32) as i64;
            let ri = <RobustKernel<f64> as Kernel<D>>::in_sphere(&rk, &ps, &qp).unwrap_or(ERR as i32) as i64;
            let is = insphere(&ps, qp).map_or(ERR, s2i);
            let il = insphere_lifted(&ps, qp).map_or(ERR, s2i);
            let id = insphere_distance(&ps, qp).map_or(ERR, s2i);
            let rf = robust_insphere(&ps, &qp, &cfg).map_or(ERR, s2i);
            json!({"p": p.iter().map(|x| x + 1).collect::<Vec<_>>(), "fo": fo, "ro": ro, "so": so, "rof": rof,
                   "fi": fi, "ri": ri, "is": is, "il": il, "id": id, "rf": rf})
        });
        match g {
            Guarded::Done(v) => rows.push(v),
            Guarded::Panicked(_) => {
                panicked = true;
                break;
            }
        }
    }
    tr.tag = tag.to_string();
    tr.emit("Pred", 0, json!({"D": D, "s": s, "pts": pts, "q": q}), json!({"rows": rows}), None, panicked);
}

fn pred_dispatch(tr: &mut Tracer, d: usize, pts: &[Vec<i64>], q: &[i64], s: i32, perms: &[Vec<usize>], tag: &str) {
    match d {
        2 => pred_event::<2>(tr, pts, q, s, perms, tag),
        3 => pred_event::<3>(tr, pts, q, s, perms, tag),
        4 => pred_event::<4>(tr, pts, q, s, perms, tag),
        _ => pred_event::<5>(tr, pts, q, s, perms, tag),
    }
}

/// C12: exhaustive tuples on the 3x3 grid (2-D) and the 2x2x2 cube (3-D), random tuples D=2..5,
/// all permutations (D <= 3) / sampled permutations, three scale classes
pub fn drive_predicates(cx: &mut Ctx) {
    let mut r = Rng::new(cx.seed * 31 + 7);
    // (a) exhaustive 2-D: every (a,b,c,q) in the 3x3 grid
    let g2 = grid(2, 3);
    let perms3 = permutations(3, 6, &mut r);
    for a in 0..9 {
        for b in 0..9 {
            for c in 0..9 {
                // unordered simplex vertices: permutations are applied explicitly
                if !(a <= b && b <= c) {
                    continue;
                }
                for q in 0..9 {
                    if !cx.mine() {
                        continue;
                    }
                    let pts = vec![g2[a].clone(), g2[b].clone(), g2[c].clone()];
                    pred_dispatch(&mut cx.tr, 2, &pts, &g2[q], 0, &perms3, "C12 grid3x3");
                }
            }
        }
    }
    // (b) exhaustive 3-D on the unit cube (thorough) / sampled (quick)
    let g3 = grid(3, 2);
    let perms4 = permutations(4, 24, &mut r);
    let mut count = 0usize;
    for a in 0..8 {
        for b in a..8 {
            for c in b..8 {
                for d in c..8 {
                    for q in 0..8 {
                        count += 1;
                        if !cx.thorough && count % 5 != (cx.seed % 5) as usize {
                            continue;
                        }
                        if !cx.mine() {
                            continue;
                        }
                        let pts = vec![g3[a].clone(), g3[b].clone(), g3[c].clone(), g3[d].clone()];
                        pred_dispatch(&mut cx.tr, 3, &pts, &g3[q], 0, &perms4, "C12 cube");
                    }
                }
            }
        }
    }
    // (c) random lattice tuples D = 2..5 in three scale classes
    let per = if cx.thorough { 5000 } else { 150 };
    for d in 2..=5usize {
        for i in 0..per {
            if !cx.mine() {
                continue;
            }
            let hi = max_coord(d);
            let mut pts = random_points(&mut r, d, d + 1, hi);
            if i % 7 == 0 {
                // force a degenerate simplex: last point = first point shifted along the first edge
                let k = pts.len() - 1;
                pts[k] = pts[0].iter().zip(pts[1].iter()).map(|(a, b)| (2 * b - a).clamp(-hi, 2 * hi)).collect();
            }
            let q: Vec<i64> = if i % 5 == 0 { pts[r.below(d + 1)].clone() } else { (0..d).map(|_| r.range(0, hi)).collect() };
            let s = match i % 6 {
                0 | 1 | 2 => 0,
                3 => *r.pick(&[-8, 8, -3, 5]),
                4 => *r.pick(&[-20, 20]),
                _ => *r.pick(&[-30, -60, -300, 30, 100, 300]),
            };
            let perms = permutations(d + 1, 12, &mut r);
            pred_dispatch(&mut cx.tr, d, &pts, &q, s, &perms, "C12 random");
        }
    }
    // (d) a sweep of scales across the tolerance band: for every lattice unit 2^-4 .. 2^-18 determinants of the same
    //     tuples move from far above the documented tolerance (1e-15 + 1e-12 |A|) to below it; wherever the spec finds
    //     them decisive, both kernels must give the exact sign (a dead band wider than documented shows up here)
    let per_scale = if cx.thorough { 120 } else { 6 };
    for d in 2..=5usize {
        for s in (-18..=-4).rev() {
            for _ in 0..per_scale {
                if !cx.mine() {
                    continue;
                }
                let hi = max_coord(d);
                let pts = random_points(&mut r, d, d + 1, hi);
                let q: Vec<i64> = (0..d).map(|_| r.range(0, hi)).collect();
                let perms = permutations(d + 1, 6, &mut r);
                pred_dispatch(&mut cx.tr, d, &pts, &q, s, &perms, "C12 band sweep");
            }
        }
    }
}

// ---------------------------------------------------------------------------------------
// C18: TLC-generated exact vectors (spec/Gen_Measures.tla) replayed against the measures
// ---------------------------------------------------------------------------------------
use delaunay::core::triangulation::TopologyGuarantee;
use delaunay::geometry::quality::{normalized_volume, radius_ratio};
use delaunay::geometry::util::circumsphere::{circumcenter, circumradius};
use delaunay::geometry::util::measures::{facet_measure, inradius, simplex_volume};

const REL_TOL: f64 = 1e-9;

fn close(got: f64, want: f64) -> bool {
    if !got.is_finite() {
        return false;
    }
    (got - want).abs() <= REL_TOL * want.abs().max(f64::MIN_POSITIVE)
}

fn factorial(n: usize) -> f64 {
    (1..=n).map(|x| x as f64).product()
}

fn measure_event<const D: usize>(tr: &mut Tracer, vec: &Value, transform: &str, perm: &[usize], shift: &[i64], k: i32) {
    let pts_i: Vec<Vec<i64>> = vec["pts"].as_array().unwrap().iter().map(|p| p.as_array().unwrap().iter().map(|x| x.as_i64().unwrap()).collect()).collect();
    let det = vec["det"].as_i64().unwrap();
    let gram: Vec<f64> = vec["gram"].as_array().unwrap().iter().map(|x| x.as_f64().unwrap()).collect();
    let ccn: Vec<f64> = vec["ccn"].as_array().unwrap().iter().map(|x| x.as_f64().unwrap()).collect();
    let ccd = vec["ccd"].as_f64().unwrap();
    let r2n = vec["r2n"].as_f64().unwrap();
    let r2d = vec["r2d"].as_f64().unwrap();
    let sc = pow2(k);
    // transformed input: permute vertices, translate by a lattice vector, scale by 2^k
    let tp: Vec<Vec<f64>> = perm
        .iter()
        .map(|&i| (0..D).map(|j| (pts_i[i][j] + shift[j]) as f64 * sc).collect())
        .collect();
    let pts: Vec<Point<f64, D>> = tp
        .iter()
        .map(|c| {
            let mut a = [0f64; D];
            a.copy_from_slice(c);
            Point::new(a)
        })
        .collect();
    // exact expectations (from the spec's integers), transformed
    let vol_w = (det.abs() as f64) / factorial(D) * sc.powi(D as i32);
    let facet_w: Vec<f64> = gram.iter().map(|g| g.sqrt() / factorial(D - 1) * sc.powi(D as i32 - 1)).collect();
    let surf_w: f64 = facet_w.iter().sum();
    let degenerate = det == 0;
    let mut checks: Vec<Value> = Vec::new();
    let mut add = |n: &str, ok: bool, got: String, want: String| checks.push(json!({"n": n, "ok": ok, "got": got, "want": want}));
    let g = tr.guard("measures", || {
        let v = simplex_volume(&pts);
        let cc = circumcenter(&pts);
        let cr = circumradius(&pts);
        let ir = inradius(&pts);
        let fm: Vec<_> = (0..=D)
            .map(|omit| {
                // facet opposite ORIGINAL vertex `omit` = all transformed points whose source index differs
                let f: Vec<Point<f64, D>> = perm.iter().enumerate().filter(|(_, src)| **src != omit).map(|(pos, _)| pts[pos]).collect();
                facet_measure(&f)
            })
            .collect();
        (v, cc, cr, ir, fm)
    });
    let Guarded::Done((v, cc, cr, ir, fm)) = g else {
        tr.emit("Measure", 0, json!({"D": D, "pts": pts_i, "det": det, "transform": transform}), json!({"checks": []}), None, true);
        return;
    };
    // quality functions need a triangulation with this single cell
    let verts: Vec<_> = pts.iter().enumerate().map(|(i, p)| delaunay::core::vertex::Vertex::<f64, VData, D>::new_with_uuid(*p, mk_uuid(77_000 + i as u64), None)).collect();
    let dt = Dt::<FastKernel<f64>, D>::with_topology_guarantee(&FastKernel::new(), &verts, TopologyGuarantee::Pseudomanifold).ok();
    let (rr, nv) = match &dt {
        Some(d) if d.number_of_cells() == 1 => {
            let ck = d.tds().cell_keys().next().unwrap();
            (Some(radius_ratio(d.as_triangulation(), ck)), Some(normalized_volume(d.as_triangulation(), ck)))
        }
        _ => (None, None),
    };
    if degenerate {
        // exactly degenerate: errors, not finite garbage (a zero volume is a correct value)
        // sqrt(det Gram) turns a relative rounding error of 1e-16 into 1e-8: "zero" is relative to extent^D
        let extent = pts_i.iter().flatten().map(|x| x.abs()).max().unwrap_or(1).max(1) as f64 + shift.iter().map(|x| x.abs()).max().unwrap_or(0) as f64;
        // an error, or the exact value 0; a non-zero "volume" of a flat simplex is rounding residue passed off as a result.
        // `~0` records whether the residue is at least negligible against extent^D (used to tell findings apart)
        let tiny_v = v.as_ref().map_or(true, |x: &f64| x.abs() <= 1e-6 * (sc * extent).powi(D as i32));
        add("volume(degenerate)", v.as_ref().map_or(true, |x: &f64| *x == 0.0), format!("{v:?}"), format!("Err or 0 (negligible: {tiny_v})"));
        add("circumcenter(degenerate)", cc.is_err(), format!("{:?}", cc.as_ref().map(|p| p.coords().to_vec())), "Err".into());
        add("circumradius(degenerate)", cr.is_err(), format!("{cr:?}"), "Err".into());
        let tiny_r = ir.as_ref().map_or(true, |x: &f64| x.abs() <= 1e-6 * sc * extent);
        add("inradius(degenerate)", ir.as_ref().map_or(true, |x: &f64| *x == 0.0), format!("{ir:?}"), format!("Err or 0 (negligible: {tiny_r})"));
        if let Some(r) = &rr {
            add("radius_ratio(degenerate)", r.is_err(), format!("{r:?}"), "Err".into());
        }
        if let Some(r) = &nv {
            add("normalized_volume(degenerate)", r.is_err(), format!("{r:?}"), "Err".into());
        }
    } else {
        let r_w = (r2n / r2d).sqrt() * sc;
        let in_w = D as f64 * vol_w / surf_w;
        add("volume", v.as_ref().is_ok_and(|x| close(*x, vol_w)), format!("{v:?}"), format!("{vol_w}"));
        for (i, f) in fm.iter().enumerate() {
            if D == 1 {
                break; // the measure of a 0-dimensional facet is a convention (0 here, 1 as counting measure)
            }
            add("facet_measure", f.as_ref().is_ok_and(|x| close(*x, facet_w[i])), format!("{f:?}"), format!("{}", facet_w[i]));
        }
        // circumcentre = p1 + ccn/ccd (original frame), then shifted and scaled
        let cc_w: Vec<f64> = (0..D).map(|j| ((pts_i[0][j] + shift[j]) as f64 + ccn[j] / ccd) * sc).collect();
        let cc_ok = cc.as_ref().is_ok_and(|c: &Point<f64, D>| (0..D).all(|j| (c.coords()[j] - cc_w[j]).abs() <= REL_TOL * (r_w + cc_w[j].abs())));
        add("circumcenter", cc_ok, format!("{:?}", cc.as_ref().map(|p| p.coords().to_vec())), format!("{cc_w:?}"));
        add("circumradius", cr.as_ref().is_ok_and(|x| close(*x, r_w)), format!("{cr:?}"), format!("{r_w}"));
        // a value, when returned, must be the exact one; tiny-but-valid simplices may be refused by the
        // library's absolute volume threshold (counted, not flagged: the statement is about values)
        if D >= 2 {
            match &ir {
                Ok(x) => add("inradius", close(*x, in_w), format!("{x}"), format!("{in_w}")),
                Err(_) => add("inradius(refused)", true, format!("{ir:?}"), format!("{in_w}")),
            }
        }
        // the quality functions may refuse near-degenerate cells (scale-aware threshold): a value, when
        // returned, must be the exact one
        if let Some(Ok(x)) = &rr {
            add("radius_ratio", close(*x, r_w / in_w), format!("{x}"), format!("{}", r_w / in_w));
        }
        if let Some(Ok(x)) = &nv {
            let e2 = vec["e2"].as_array().unwrap();
            let mut s = 0.0;
            let mut n = 0.0;
            for i in 0..=D {
                for j in (i + 1)..=D {
                    s += e2[i][j].as_f64().unwrap().sqrt() * sc;
                    n += 1.0;
                }
            }
            let mean = s / n;
            add("normalized_volume", close(*x, vol_w / mean.powi(D as i32)), format!("{x}"), format!("{}", vol_w / mean.powi(D as i32)));
        }
    }
    tr.emit("Measure", 0, json!({"D": D, "pts": pts_i, "det": det, "transform": transform, "k": k}), json!({"checks": checks}), None, false);
}

pub fn drive_measures(cx: &mut Ctx, vec_file: &str) {
    let text = std::fs::read_to_string(vec_file).expect("cannot read vectors");
    let mut r = Rng::new(cx.seed + 99);
    for line in text.lines() {
        if line.trim().is_empty() {
            continue;
        }
        if !cx.mine() {
            continue;
        }
        let v: Value = serde_json::from_str(line).expect("bad vector line");
        let d = v["D"].as_u64().unwrap() as usize;
        cx.tr.tag = format!("C18 D={d}");
        let id: Vec<usize> = (0..=d).collect();
        let zero = vec![0i64; d];
        let mut perm = id.clone();
        r.shuffle(&mut perm);
        let shift: Vec<i64> = (0..d).map(|_| r.range(-9, 9)).collect();
        let k = *r.pick(&[-7, -2, 3, 11]);
        let variants: Vec<(&str, Vec<usize>, Vec<i64>, i32)> = vec![
            ("id", id.clone(), zero.clone(), 0),
            ("perm", perm.clone(), zero.clone(), 0),
            ("translate", id.clone(), shift.clone(), 0),
            ("scale", id.clone(), zero.clone(), k),
            ("all", perm, shift, k),
        ];
        for (name, p, sh, kk) in variants {
            match d {
                1 => measure_event::<1>(&mut cx.tr, &v, name, &p, &sh, kk),
                2 => measure_event::<2>(&mut cx.tr, &v, name, &p, &sh, kk),
                3 => measure_event::<3>(&mut cx.tr, &v, name, &p, &sh, kk),
                4 => measure_event::<4>(&mut cx.tr, &v, name, &p, &sh, kk),
                _ => measure_event::<5>(&mut cx.tr, &v, name, &p, &sh, kk),
            }
        }
    }
}

// ---------------------------------------------------------------------------------------
// C17: Hilbert curve tables, orderings, dedup policies
// ---------------------------------------------------------------------------------------
use delaunay::core::delaunay_triangulation::InsertionOrderStrategy;
use delaunay::core::delaunay_triangulation::verif_preprocess;
use delaunay::core::util::deduplication::{dedup_vertices_epsilon, dedup_vertices_exact};
use delaunay::core::util::hilbert::{hilbert_index, hilbert_indices_prequantized, hilbert_sort_by_stable, hilbert_sorted_indices};

fn hilbert_event<const D: usize>(tr: &mut Tracer, bits: u32) {
    let side = 1u32 << bits;
    let n = (side as u64).pow(D as u32) as usize;
    // every cell of the grid in lexicographic order (first coordinate most significant)
    let mut cells: Vec<[u32; D]> = Vec::with_capacity(n);
    for idx in 0..n {
        let mut c = [0u32; D];
        let mut rem = idx;
        for j in (0..D).rev() {
            c[j] = (rem % side as usize) as u32;
            rem /= side as usize;
        }
        cells.push(c);
    }
    let g = tr.guard("hilbert", || {
        let t = hilbert_indices_prequantized(&cells, bits);
        // the float entry point on cell centres must agree with the prequantized table
        let mut float_ok = true;
        if let Ok(tab) = &t {
            for (i, c) in cells.iter().enumerate().step_by(1 + n / 512) {
                let mut f = [0f64; D];
                for j in 0..D {
                    f[j] = c[j] as f64;
                }
                match hilbert_index(&f, (0.0, (side - 1) as f64), bits) {
                    Ok(x) if x == tab[i] => {}
                    _ => float_ok = false,
                }
            }
        }
        (t, float_ok)
    });
    tr.tag = format!("C17 hilbert D={D} bits={bits}");
    match g {
        Guarded::Done((Ok(tab), float_ok)) => {
            let table: Vec<i64> = tab.iter().map(|&x| x as i64).collect();
            // curve = cells listed by increasing index (a projection; TLC checks it against the table)
            let mut order: Vec<usize> = (0..n).collect();
            order.sort_by_key(|&i| tab[i]);
            let curve: Vec<Vec<i64>> = order.iter().map(|&i| cells[i].iter().map(|&x| x as i64).collect()).collect();
            tr.emit("Hilbert", 0, json!({"D": D, "bits": bits}), json!({"kind":"Ok","table": table, "curve": curve, "float_ok": float_ok}), None, false);
        }
        Guarded::Done((Err(e), _)) => {
            tr.emit("Hilbert", 0, json!({"D": D, "bits": bits}), json!({"kind":"Err","err":variant(&e),"table":[],"curve":[],"float_ok":false}), None, false);
        }
        Guarded::Panicked(_) => {
            tr.emit("Hilbert", 0, json!({"D": D, "bits": bits}), json!({"kind":"Panic"}), None, true);
        }
    }
}

/// vertex list with ties, exact duplicates, signed zeros and near-duplicates; returns (vertices, m, off-lattice flag)
fn order_inputs<const D: usize>(r: &mut Rng, n: usize, hi: i64, s: i32, near: bool) -> (Vec<delaunay::core::vertex::Vertex<f64, VData, D>>, Vec<Value>) {
    let mut vs = Vec::new();
    let mut desc = Vec::new();
    let mut pts: Vec<Vec<i64>> = Vec::new();
    for i in 0..n {
        let m: Vec<i64> = if i > 0 && r.chance(1, 4) { r.pick(&pts).clone() } else { (0..D).map(|_| r.range(-hi, hi)).collect() };
        pts.push(m.clone());
        let mut c = [0f64; D];
        for j in 0..D {
            c[j] = m[j] as f64 * pow2(s);
            if m[j] == 0 && r.chance(1, 2) {
                c[j] = -0.0;
            }
        }
        // near duplicates: half a lattice unit off along axis 0 (handled exactly: the spec works in half units)
        let half = near && r.chance(1, 5);
        if half {
            c[0] += 0.5 * pow2(s);
        }
        let id = i as i64 + 1;
        vs.push(delaunay::core::vertex::Vertex::new_with_uuid(Point::new(c), mk_uuid(500_000 + i as u64), Some(id as i32)));
        // coordinates in HALF lattice units (integers)
        let h: Vec<i64> = m.iter().enumerate().map(|(j, x)| 2 * x + i64::from(half && j == 0)).collect();
        desc.push(json!({"id": id, "h": h}));
    }
    (vs, desc)
}

fn order_event<const D: usize>(tr: &mut Tracer, r: &mut Rng, idx: usize) {
    let s = *r.pick(&[0, 0, -6, 9, 40, -40]);
    let n = 3 + r.below(10);
    let hi = if idx % 3 == 0 { 2 } else { 6 };
    let (vs, desc) = order_inputs::<D>(r, n, hi, s, false);
    let id_of = |v: &delaunay::core::vertex::Vertex<f64, VData, D>| v.data.map_or(0, i64::from);
    tr.tag = format!("C17 order D={D}");
    let g = tr.guard("ordering", || {
        let mut outs: Vec<Value> = Vec::new();
        for (name, st) in [("Input", InsertionOrderStrategy::Input), ("Lexicographic", InsertionOrderStrategy::Lexicographic),
                           ("Morton", InsertionOrderStrategy::Morton), ("Hilbert", InsertionOrderStrategy::Hilbert)] {
            let o = verif_preprocess::order_vertices(vs.clone(), st);
            outs.push(json!({"strategy": name, "out": o.iter().map(id_of).collect::<Vec<_>>()}));
        }
        // public helpers
        let coords: Vec<[f64; D]> = vs.iter().map(|v| *v.point().coords()).collect();
        let lo = coords.iter().flatten().copied().fold(f64::INFINITY, f64::min);
        let hi_f = coords.iter().flatten().copied().fold(f64::NEG_INFINITY, f64::max);
        let bounds = (lo, if hi_f > lo { hi_f } else { lo + 1.0 });
        if let Ok(ix) = hilbert_sorted_indices(&coords, bounds, 8) {
            outs.push(json!({"strategy": "hilbert_sorted_indices", "out": ix.iter().map(|&i| id_of(&vs[i])).collect::<Vec<_>>()}));
        }
        let mut items = vs.clone();
        if hilbert_sort_by_stable(&mut items, bounds, 8, |v| *v.point().coords()).is_ok() {
            outs.push(json!({"strategy": "hilbert_sort_by_stable", "out": items.iter().map(id_of).collect::<Vec<_>>()}));
        }
        let bal = verif_preprocess::balanced_simplex_indices(&vs).map(|v| v.iter().map(|&i| i as i64 + 1).collect::<Vec<_>>());
        (outs, bal)
    });
    match g {
        Guarded::Done((outs, bal)) => {
            tr.emit("Order", 0, json!({"D": D, "s": s, "input": desc}), json!({"outs": outs, "balanced": bal.unwrap_or_default()}), None, false);
        }
        Guarded::Panicked(_) => {
            tr.emit("Order", 0, json!({"D": D, "s": s, "input": desc}), json!({"outs": [], "balanced": []}), None, true);
        }
    }
}

fn dedup_event<const D: usize>(tr: &mut Tracer, r: &mut Rng, idx: usize) {
    let s = *r.pick(&[0, 0, -6, 9]);
    let n = 3 + r.below(12);
    let hi = if idx % 2 == 0 { 2 } else { 4 };
    let (vs, desc) = order_inputs::<D>(r, n, hi, s, true);
    // epsilon in HALF lattice units: 0 (removes nothing), 1, 2, 3 half units
    let eh = r.below(4) as i64;
    let eps = eh as f64 * 0.5 * pow2(s);
    // extreme ranges: a tolerance far below the spacing (coordinate / tolerance up to 2^72, beyond what an
    // integer grid key can hold). On half-lattice points "closer than eps" then means "equal", which is what
    // the specification's formulas say for eh = 1 as well (distances are 0 or >= one half unit).
    let (eh, eps) = if idx % 3 == 2 { (1, pow2(s - *r.pick(&[30, 45, 54, 62, 64, 70]))) } else { (eh, eps) };
    let id_of = |v: &delaunay::core::vertex::Vertex<f64, VData, D>| v.data.map_or(0, i64::from);
    tr.tag = format!("C17 dedup D={D}");
    let g = tr.guard("dedup", || {
        let mut outs: Vec<Value> = Vec::new();
        outs.push(json!({"variant": "dedup_vertices_exact", "kind": "exact", "out": dedup_vertices_exact(&vs).iter().map(id_of).collect::<Vec<_>>()}));
        outs.push(json!({"variant": "dedup_vertices_epsilon", "kind": "eps", "out": dedup_vertices_epsilon(&vs, eps).iter().map(id_of).collect::<Vec<_>>()}));
        let cell = if eps > 0.0 { eps } else { 1e-10 };
        for (w, kind, name) in [(0usize, "exact", "exact_sorted"), (1, "exact", "exact_hash_grid"), (2, "eps", "epsilon_n2"),
                                (3, "eps", "epsilon_quantized"), (4, "eps", "epsilon_hash_grid")] {
            let o = verif_preprocess::dedup(vs.clone(), w, eps, cell);
            outs.push(json!({"variant": name, "kind": kind, "out": o.iter().map(id_of).collect::<Vec<_>>()}));
        }
        outs
    });
    match g {
        Guarded::Done(outs) => {
            tr.emit("Dedup", 0, json!({"D": D, "s": s, "eh": eh, "input": desc}), json!({"outs": outs}), None, false);
        }
        Guarded::Panicked(_) => {
            tr.emit("Dedup", 0, json!({"D": D, "s": s, "eh": eh, "input": desc}), json!({"outs": []}), None, true);
        }
    }
}

pub fn drive_orderings(cx: &mut Ctx) {
    // Hilbert tables: every (D, bits) with 2^(D*bits) <= cap
    let cap: u64 = if cx.thorough { 262_144 } else { 4_096 };
    for d in 1..=5u32 {
        for bits in 1..=16u32 {
            if (1u64 << (d * bits).min(40)) > cap {
                break;
            }
            if !cx.mine() {
                continue;
            }
            match d {
                1 => hilbert_event::<1>(&mut cx.tr, bits),
                2 => hilbert_event::<2>(&mut cx.tr, bits),
                3 => hilbert_event::<3>(&mut cx.tr, bits),
                4 => hilbert_event::<4>(&mut cx.tr, bits),
                _ => hilbert_event::<5>(&mut cx.tr, bits),
            }
        }
    }
    let per = if cx.thorough { 2500 } else { 100 };
    let mut r = Rng::new(cx.seed * 77 + 5);
    for d in 2..=5usize {
        for i in 0..per {
            if !cx.mine() {
                continue;
            }
            match d {
                2 => { order_event::<2>(&mut cx.tr, &mut r, i); dedup_event::<2>(&mut cx.tr, &mut r, i) }
                3 => { order_event::<3>(&mut cx.tr, &mut r, i); dedup_event::<3>(&mut cx.tr, &mut r, i) }
                4 => { order_event::<4>(&mut cx.tr, &mut r, i); dedup_event::<4>(&mut cx.tr, &mut r, i) }
                _ => { order_event::<5>(&mut cx.tr, &mut r, i); dedup_event::<5>(&mut cx.tr, &mut r, i) }
            }
        }
    }
}
