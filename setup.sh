#!/bin/bash
# Offline setup after a fresh restore: build the conformance harness in both profiles from
# /repo's working tree and parse every specification with SANY.
set -e
cd "$(dirname "$0")"
export CARGO_NET_OFFLINE=true
mkdir -p work evidence
[ -f harness/Cargo.lock ] || cp /repo/Cargo.lock harness/Cargo.lock
( cd harness && cargo build --offline --bins && cargo build --offline --bins --release ) 2>&1 | tail -3
cd spec
for f in Trace_*.tla MC_*.tla Gen_*.tla; do
  [ -f "$f" ] || continue
  tla-sany "$f" > ../work/sany.log 2>&1 || { echo "SANY failed on $f"; tail -20 ../work/sany.log; exit 1; }
done
echo "setup ok"
