---------------------------- MODULE Gen_Caches ----------------------------
(***************************************************************************)
(* GENERATOR (spec -> implementation): TLC explores the cache model and    *)
(* prints, for every distinct abstract state it reaches, the history of    *)
(* calls that led there (one JSON line per state, the history variable is  *)
(* hidden from the fingerprint by VIEW).  `vdrive caches` replays every    *)
(* history against the real library; Trace_Caches then compares the real   *)
(* cache state with the model after every call.                            *)
(***************************************************************************)
EXTENDS Caches, Json
CONSTANT MaxDepth
VARIABLE h

GInit == Init /\ h = <<>>

GStep ==
  \E o \in Objs :
    \/ Construct(o, 0)
    \/ \E p \in Pos, res \in Results, d \in 0..1 :
          Insert(o, p, res, d) \/ Remove(o, p, res, d)
          \/ FlipK1Insert(o, p, res, d) \/ FlipK1Remove(o, p, res, d)
    \/ \E res \in Results, d \in 0..1 : FlipK2(o, res, d)
    \/ \E adv \in BOOLEAN, res \in Results \ {"Rebuilt"}, d \in 0..1 : Repair(o, adv, res, d, 0)
    \/ AsTriMut(o)
    \/ \E o2 \in Objs : Clone(o, o2) \/ SerDe(o, o2, 0)
    \/ HullCreate(o)
    \/ \E res \in Results : HullQuery(o, res)

GNext == GStep /\ h' = Append(h, [op |-> last'.op, o |-> last'.o, p |-> last'.p, o2 |-> last'.o2])
GSpec == GInit /\ [][GNext]_<<vars, h>>

DepthBound == Len(h) <= MaxDepth
View == <<obj, gen, hull, nextLin, nextVer>>
\* one line per distinct state
Emit == Len(h) < 2 \/ PrintT(<<"HIST", ToJson(h)>>)
=============================================================================
