SPECIFICATION Spec
CONSTANTS
  D = 2
  Pts <- GP6
  Cells <- GP6DT
  Queries <- Q2D
  MaxSteps = 10000
INVARIANTS Sound OutsideRight Complete InteriorExact StepsBound NoScan RunAgrees
PROPERTY Terminates
CHECK_DEADLOCK FALSE
