---------------------------- MODULE Apa_InsertTxn ----------------------------
(***************************************************************************)
(* UNBOUNDED safety of the insertion transaction with Apalache: the same   *)
(* step function as InsertTxn.tla (InsertTxnOps!Step), any insertion count *)
(* and any N of the EveryN policies (arbitrary naturals instead of the     *)
(* small sets TLC enumerates), proved by an inductive invariant:           *)
(*   apalache-mc check --init=Init    --inv=IndInv --length=0 Apa_InsertTxn.tla   (Init => IndInv)        *)
(*   apalache-mc check --init=IndInit --inv=IndInv --length=1 Apa_InsertTxn.tla   (IndInv /\ Next => IndInv') *)
(* and IndInv => AllOrNothing /\ Committed (--init=IndInit --inv=Safety    *)
(* --length=0).                                                            *)
(***************************************************************************)
EXTENDS InsertTxnOps

VARIABLES
  \* @type: $cfg;
  cfg,
  \* @type: $st;
  s,
  \* @type: Int;
  count0

Repairs == {"Never", "Every", "EveryN"}
Checks  == {"EndOnly", "EveryN"}
Pcs     == {"outer", "attempt", "post", "repair", "check", "finish", "done"}

CfgOK == cfg.repair \in Repairs /\ cfg.check \in Checks /\ cfg.n \in Nat /\ cfg.n >= 1 /\ cfg.cells \in BOOLEAN
         /\ cfg.maxPert \in Nat /\ cfg.maxPert <= 3 /\ cfg.snapUsesNext = TRUE

Init == /\ cfg \in [repair : Repairs, check : Checks, n : Nat, cells : BOOLEAN, maxPert : 0..3, snapUsesNext : {TRUE}]
        /\ cfg.n >= 1
        /\ count0 \in Nat
        /\ s = TxnInit(count0)

Next == /\ s.pc # "done"
        /\ \E c \in {"dup", "ok", "R", "N", "fR", "fN", "fail", "-"} :
             /\ c \in Choices(cfg, s)
             /\ s' = Step(cfg, s, c)
        /\ UNCHANGED <<cfg, count0>>

\* the pre-state as the snapshot would hold it
\* @type: $snap;
PreSnap == [some |-> TRUE, gen |-> 0, has |-> FALSE, idx |-> FALSE, count |-> count0, hint |-> "old"]
Untouched == s.gen = 0 /\ ~s.has /\ ~s.idx /\ s.count = count0 /\ s.hint = "old"
SnapNeeded == cfg.cells /\ (cfg.repair # "Never" \/ ShouldCheck(cfg, count0 + 1))

IndInv ==
  /\ CfgOK /\ count0 \in Nat
  /\ s.pc \in Pcs /\ s.hint \in {"old", "new"} /\ s.outcome \in {"none", "Inserted", "Skipped", "Err"}
  /\ s.gen >= 0 /\ s.fresh >= 1 /\ s.gen < s.fresh /\ s.attempt >= 0 /\ s.attempt <= cfg.maxPert
  /\ s.attempts >= 0 /\ s.attempts <= cfg.maxPert + 1
  \* the outer snapshot, once taken, is the pre-state; it exists whenever a post-step can fail
  /\ (s.pc = "outer" => Untouched /\ ~s.snapO.some /\ s.outcome = "none")
  /\ (s.pc # "outer" => (s.snapO.some => s.snapO = PreSnap) /\ (s.snapO.some = SnapNeeded))
  \* between attempts nothing has changed
  /\ (s.pc = "attempt" => Untouched /\ s.outcome = "none")
  \* after a successful attempt the vertex is in, the count is still the old one until "post"
  /\ (s.pc = "post" => s.has /\ s.idx /\ s.gen # 0 /\ s.count = count0 /\ s.outcome = "none")
  /\ (s.pc \in {"repair", "check"} => s.has /\ s.idx /\ s.gen # 0 /\ s.count = count0 + 1 /\ s.outcome = "none"
                                       /\ (cfg.cells => s.hint = "new"))
  /\ (s.pc = "repair" => cfg.cells /\ cfg.repair # "Never")
  \* an error is on its way out: either the inner call already restored everything, or a post-step failed,
  \* and then the snapshot exists
  /\ (s.pc = "finish" => s.outcome = "Err" /\ (Untouched \/ s.snapO.some))
  /\ (s.pc = "done" =>
        \/ s.outcome \in {"Err", "Skipped"} /\ Untouched
        \/ s.outcome = "Inserted" /\ s.has /\ s.idx /\ s.gen # 0 /\ s.count = count0 + 1 /\ (cfg.cells => s.hint = "new"))

\* any state satisfying the invariant (for the inductive step)
IndInit ==
  /\ cfg \in [repair : Repairs, check : Checks, n : Nat, cells : BOOLEAN, maxPert : 0..3, snapUsesNext : {TRUE}]
  /\ count0 \in Nat
  /\ s \in [pc : Pcs, gen : Nat, has : BOOLEAN, idx : BOOLEAN, count : Nat, hint : {"old", "new"}, fresh : Nat, attempt : Nat,
            snapO : [some : BOOLEAN, gen : Nat, has : BOOLEAN, idx : BOOLEAN, count : Nat, hint : {"old", "new"}],
            snapI : Nat, outcome : {"none", "Inserted", "Skipped", "Err"}, attempts : Nat, sites : {<<>>}]
  /\ IndInv

AllOrNothing == s.pc = "done" /\ s.outcome \in {"Err", "Skipped"} => Untouched
Committed    == s.pc = "done" /\ s.outcome = "Inserted" => s.has /\ s.idx /\ s.count = count0 + 1
Safety       == AllOrNothing /\ Committed /\ s.attempts <= cfg.maxPert + 1
\* non-vacuity probes: IndInit is satisfiable in every control state (each must be VIOLATED from IndInit at length 0)
NeverDoneInserted == ~(s.pc = "done" /\ s.outcome = "Inserted")
NeverFinishWithSnapshot == ~(s.pc = "finish" /\ s.snapO.some /\ s.gen # 0)
NeverRepair == s.pc # "repair"
=============================================================================
