----------------------------- MODULE MC_Caches -----------------------------
(* Exhaustive check of the cache mechanism model with small constants. *)
EXTENDS Caches
CONSTANT MaxDepth
DepthBound == TLCGet("level") <= MaxDepth
GenBound == \A l \in Lins : gen[l] <= MaxGen
View == <<obj, gen, hull, nextLin, nextVer>>
=============================================================================
