SPECIFICATION Spec
CONSTANTS
  GEOMETRIC = FALSE
  Pts <- GP3D
  D = 3
  MaxScramble = 12
  Start <- DTStart
INVARIANTS EveryStateIsATriangulation MovesAreInvertible
PROPERTY RepairTerminates
VIEW NoCounterView
CHECK_DEADLOCK FALSE
