SPECIFICATION Spec
CONSTANTS
  FLIP_ATOMIC = TRUE
  EMIT = FALSE
INVARIANTS AllOrNothing Committed StaleAfterTouch FoldAgrees
PROPERTY Terminates
CHECK_DEADLOCK FALSE
