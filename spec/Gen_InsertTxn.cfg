SPECIFICATION Spec
CONSTANTS
  MaxPert = 1
  Ns = {1, 2}
  Counts = {0, 1, 3, 4}
  SNAP_USES_NEXT = TRUE
  EMIT = TRUE
INVARIANTS Emit
CHECK_DEADLOCK FALSE
