------------------------------ MODULE FlipTxn ------------------------------
(* The flip-application transaction (FlipTxnOps.tla) as a state machine over every kind of flip and every choice
   of the environment; generator of failpoint scripts for `vdrive fliptxn`. *)
EXTENDS FlipTxnOps, Json
CONSTANTS ATOMIC, CTXCLEAN, EMIT
VARIABLES cfg, s, hist
vars == <<cfg, s, hist>>
Cfgs == [kind : {"k1ins", "k2", "k1rem"}, atomic : {ATOMIC}, ctxclean : {CTXCLEAN}]
Init == cfg \in Cfgs /\ s = FInit /\ hist = <<>>
Next == /\ s.pc # "done"
        /\ \E c \in FChoices(cfg, s) : s' = FStep(cfg, s, c) /\ hist' = IF c = "-" THEN hist ELSE Append(hist, c)
        /\ UNCHANGED cfg
Spec == Init /\ [][Next]_vars /\ WF_vars(Next)
Done == s.pc = "done"
\* C03 / C07: a flip that reports an error leaves everything as it was
AllOrNothing == Done /\ s.outcome = "Err" => ~FChanged(s)
\* the part of AllOrNothing that does not depend on the application being atomic: a handle that is refused changes nothing
RefusedIsNoOp == Done /\ s.outcome = "Err" /\ s.sites = <<>> => ~FChanged(s)
\* C07: a successful flip replaced the old cells by the new ones, wired
Committed == Done /\ s.outcome = "Ok" => s.newIn /\ ~s.oldIn /\ s.wired /\ ~s.vert = (cfg.kind # "k1ins") /\ s.tgt = (cfg.kind # "k1rem")
\* C11: in EVERY state a caller can observe (also the half-applied ones) changed content means a bumped generation
StaleWhenChanged == Done /\ FChanged(s) => s.bumps > 0
\* the new cells and the old cells never coexist in a state reported as success, and never both vanish
NoOverlapNoHole == Done /\ s.outcome = "Ok" => s.newIn # s.oldIn
FoldAgrees == Done => FRun(cfg, FInit, hist) = s
Terminates == <>Done
Emit == ~(EMIT /\ Done) \/
  PrintT(<<"REPLAY", ToJson([cfg |-> cfg, choices |-> hist, outcome |-> s.outcome, sites |-> s.sites,
                               changed |-> FChanged(s)])>>)
=============================================================================
