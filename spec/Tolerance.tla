----------------------------- MODULE Tolerance -----------------------------
(***************************************************************************)
(* The documented tolerance band of the floating-point predicates, as      *)
(* integer arithmetic on lattice coordinates m * 2^s: when is an exact     *)
(* determinant DECIDABLE (separated from zero by more than the tolerance), *)
(* and when must an exact zero be reported as zero.  Shared by the         *)
(* predicate checks (Pure.tla, C12) and the contract layer (DelaunayAPI,   *)
(* "judged in exact arithmetic outside the predicates' tolerance band").   *)
(***************************************************************************)
EXTENDS Geometry

\* floor(log2 x) for x >= 1, ceil(log2 x) for x >= 1
RECURSIVE FLog2(_)
FLog2(x) == IF x <= 1 THEN 0 ELSE 1 + FLog2(x \div 2)
CLog2(x) == IF x <= 1 THEN 0 ELSE FLog2(x - 1) + 1
Max(a, b) == IF a > b THEN a ELSE b

\* max absolute row sum of the coordinates (the "infinity norm" the adaptive tolerance uses)
RowSum(ps) == LET rs == {Sum([j \in DOMAIN ps[i] |-> Abs(ps[i][j])]) : i \in DOMAIN ps}
              IN  CHOOSE x \in rs : \A y \in rs : y <= x
RowSum2(ps) == LET rs == {Norm2(ps[i]) : i \in DOMAIN ps}
               IN  CHOOSE x \in rs : \A y \in rs : y <= x

\* The documented tolerance is tol = 1e-15 + 1e-12 * ||A||_inf.  With 1e-15 < 2^-49 and
\* 1e-12 < 2^-39, a determinant det * 2^(s*k) is DECIDABLE (separated from zero by more than the
\* tolerance, with a factor-8 safety margin, and far from overflow / underflow) when:
InRange(s, D) == s * (D + 2) <= 600 /\ s * (D + 2) >= -600
DecOrient(det, s, D, ps) ==
  /\ det # 0 /\ InRange(s, D)
  /\ FLog2(Abs(det)) + s * D >= Max(-49, -39 + CLog2(RowSum(ps) + 1) + s) + 3
DecSphere(lifted, s, D, ps) ==
  /\ lifted # 0 /\ InRange(s, D)
  /\ FLog2(Abs(lifted)) + s * (D + 2) >=
       Max(-49, Max(-39 + CLog2(RowSum(ps) + 1) + s, -39 + CLog2(RowSum2(ps) + 1) + 2 * s)) + 3

\* "...returns the degenerate/boundary value when the exact determinant is zero AND the
\* floating-point rounding bound of the evaluation lies below that tolerance": the rounding bound of
\* an n x n determinant with entries of magnitude M is about 2^-50 * M^n (LU with divisions is not
\* exact even on exact inputs); it must stay below the tolerance with margin.
ZeroOrientOK(s, D, ps) ==
  /\ InRange(s, D)
  /\ -50 + D * (CLog2(RowSum(ps) + 1) + s) + 3 <= Max(-49, -39 + FLog2(RowSum(ps) + 1) + s)
ZeroSphereOK(s, D, ps) ==
  /\ InRange(s, D)
  /\ -50 + D * (CLog2(RowSum(ps) + 1) + s) + CLog2(RowSum2(ps) + 1) + 2 * s + 3
       <= Max(-49, Max(-39 + FLog2(RowSum(ps) + 1) + s, -39 + FLog2(RowSum2(ps) + 1) + 2 * s))
=============================================================================
