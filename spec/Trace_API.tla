----------------------------- MODULE Trace_API -----------------------------
(***************************************************************************)
(* Trace validator: is the behaviour recorded from the REAL library        *)
(* (ndjson, one line per public call, written by /verif/harness) a         *)
(* behaviour that the contract layer DelaunayAPI allows?                   *)
(*                                                                         *)
(* Every line carries the call, its arguments, its result and the full     *)
(* projected state after the call, so there is exactly one candidate       *)
(* successor per line; the contract action then evaluates to TRUE or FALSE *)
(* on it.  A panic or a watchdog timeout matches no action (C19).          *)
(***************************************************************************)
EXTENDS DelaunayAPI, Json, IOUtils

Rec == ndJsonDeserialize(IOEnv.TRACE)

Objs == 0..7

VARIABLES st, l, hl, memo
vars == <<st, l, hl, memo>>

NoHullRec == [some |-> FALSE]

TraceInit == st = [o \in Objs |-> NoState] /\ l = 1 /\ hl = [o \in Objs |-> NoHullRec] /\ memo = {} /\ TLCSet(8, 0) /\ TLCSet(9, IOEnv.ONLYC19 = "1")

Ev    == Rec[l]
IsEvent(e) == l <= Len(Rec) /\ Rec[l].ev = e /\ l' = l + 1 /\ TLCSet(8, l)
              /\ Chk("C19.panic", ~Rec[l].panic)
              /\ Chk("C19.timeout", ~Rec[l].timeout)

SetObj(o, S) == st' = [st EXCEPT ![o] = S] /\ UNCHANGED <<hl, memo>>
SetObjOnly(o, S) == st' = [st EXCEPT ![o] = S] /\ UNCHANGED hl

TReset == IsEvent("Reset") /\ st' = [o \in Objs |-> NoState] /\ hl' = [o \in Objs |-> NoHullRec] /\ UNCHANGED memo

\* C14: `memo` is a history variable: what an earlier construction with the same determinism key
\* (same vertex values and options; for the order-insensitive strategies the key ignores the
\* caller's order) produced, as cells over coordinate tuples
CoordCells(S) == IF S.live THEN {{VRec(S, v).m : v \in CellSet(c)} : c \in CRecs(S)} ELSE {}
TConstruct ==
  /\ IsEvent("Construct")
  /\ Construct(Ev.args, Ev.res, Ev.post)
  /\ IF Ev.args.dkey = "" THEN UNCHANGED memo
     ELSE LET old == {r \in memo : r.key = Ev.args.dkey}
              now == [key |-> Ev.args.dkey, ok |-> (Ev.res.kind = "Ok"), cells |-> CoordCells(Ev.post)]
          IN  /\ Chk("C14.same vertex values and options, different result", \A r \in old : r = now)
              /\ memo' = memo \cup {now}
  /\ SetObjOnly(Ev.obj, Ev.post)

\* C14: in general position every certified result is THE Delaunay triangulation
TCanon ==
  /\ IsEvent("Canon")
  /\ st[Ev.obj].live
  /\ LET S == st[Ev.obj] IN
     Chk("C14.general position: not the Delaunay triangulation of the vertex set",
         Len(S.verts) <= Ev.args.gpmax /\ PertSet(S) = {} /\ Len(S.cells) > 0
         /\ NoStrictlyInside(S) /\ EmbeddedQ(S) /\ GeneralPosition(S) => K(S) = DelaunayCells(S))
  /\ UNCHANGED <<st, hl, memo>>

TInsert ==
  /\ IsEvent("Insert")
  /\ st[Ev.obj].live
  /\ Insert(st[Ev.obj], Ev.args, Ev.res, Ev.post)
  /\ SetObj(Ev.obj, Ev.post)

\* an object enters the trace without the C01 certificate (only Levels 1-2 are required): used where
\* the following events are purely combinatorial
TAdopt ==
  /\ IsEvent("Adopt")
  /\ Level1(Ev.post) /\ Level2(Ev.post)
  /\ SetObj(Ev.obj, Ev.post)

TInsertCopy ==
  /\ IsEvent("InsertCopy")
  /\ st[Ev.obj].live
  /\ InsertCopy(st[Ev.obj], Ev.args, Ev.res, Ev.post)
  /\ SetObj(Ev.obj, Ev.post)

TRemove ==
  /\ IsEvent("Remove")
  /\ st[Ev.obj].live
  /\ Remove(st[Ev.obj], Ev.args, Ev.res, Ev.post)
  /\ SetObj(Ev.obj, Ev.post)

TFlip ==
  /\ IsEvent("Flip")
  /\ st[Ev.obj].live
  /\ Flip(st[Ev.obj], Ev.args, Ev.res, Ev.post)
  \* inverse move: restores the cell set recorded at an earlier line
  /\ Chk("C07.inverse restores the identical cells",
         Ev.args.restores > 0 /\ Ev.res.kind = "Ok" =>
            K(Ev.post) = K(Rec[l - Ev.args.restores].post))
  /\ SetObj(Ev.obj, Ev.post)

TRepair ==
  /\ IsEvent("Repair")
  /\ st[Ev.obj].live
  /\ Repair(st[Ev.obj], Ev.args, Ev.res, Ev.post)
  /\ SetObj(Ev.obj, Ev.post)

TVerdicts ==
  /\ IsEvent("Verdicts")
  /\ st[Ev.obj].live
  /\ Verdicts(st[Ev.obj], Ev.res)
  /\ UNCHANGED <<st, hl, memo>>

\* an empty triangulation object created by empty()/with_empty_kernel...
TEmpty ==
  /\ IsEvent("Empty")
  /\ Chk("Empty.is empty", Ev.post.live /\ Len(Ev.post.verts) = 0 /\ Len(Ev.post.cells) = 0)
  /\ SetObj(Ev.obj, Ev.post)

TSetPolicy ==
  /\ IsEvent("SetPolicy")
  /\ st[Ev.obj].live
  /\ Chk("SetPolicy.only the policy changes",
         ObsVerts(Ev.post) = ObsVerts(st[Ev.obj]) /\ ObsCells(Ev.post) = ObsCells(st[Ev.obj]))
  /\ SetObj(Ev.obj, Ev.post)

TLocate ==
  /\ IsEvent("Locate")
  /\ st[Ev.obj].live
  /\ Locate(st[Ev.obj], Ev.args, Ev.res)
  /\ UNCHANGED <<st, hl, memo>>

TConflict ==
  /\ IsEvent("Conflict")
  /\ st[Ev.obj].live
  /\ Conflict(st[Ev.obj], Ev.res)
  /\ UNCHANGED <<st, hl, memo>>

TExtendHull ==
  /\ IsEvent("ExtendHull")
  /\ st[Ev.obj].live
  /\ ExtendHull(st[Ev.obj], Ev.res)
  /\ UNCHANGED <<st, hl, memo>>

THullCreate ==
  /\ IsEvent("HullCreate")
  /\ st[Ev.obj].live
  /\ \/ /\ Ev.res.kind = "Ok"
        /\ HullCreateOK(st[Ev.obj], Ev.res)
        /\ hl' = [hl EXCEPT ![Ev.obj] = [some |-> TRUE, facets |-> Ev.res.facets,
                                         at |-> [cells |-> ObsCells(st[Ev.obj]), verts |-> ObsVerts(st[Ev.obj])]]]
     \/ /\ Ev.res.kind = "Err"
        /\ Chk("C11.hull refused for a triangulation with cells", Len(st[Ev.obj].cells) = 0)
        /\ hl' = [hl EXCEPT ![Ev.obj] = NoHullRec]
  /\ UNCHANGED <<st, memo>>

THullQuery ==
  /\ IsEvent("HullQuery")
  /\ st[Ev.obj].live /\ hl[Ev.obj].some
  /\ HullQuery(st[Ev.obj], hl[Ev.obj], Ev.res)
  /\ UNCHANGED <<st, hl, memo>>

TQueries ==
  /\ IsEvent("Queries")
  /\ st[Ev.obj].live
  /\ Queries(st[Ev.obj], Ev.res)
  /\ UNCHANGED <<st, hl, memo>>

TClone ==
  /\ IsEvent("Clone")
  /\ st[Ev.args.src].live
  /\ CloneOK(st[Ev.args.src], Ev.res, Ev.post)
  /\ SetObj(Ev.obj, Ev.post)

TSerDe ==
  /\ IsEvent("SerDe")
  /\ st[Ev.args.src].live
  /\ \/ Ev.res.kind = "Ok" /\ SerDeOK(st[Ev.args.src], Ev.res, Ev.post)
     \/ Ev.res.kind = "Err" /\ Chk("C13.round trip of a library-produced triangulation refused", FALSE)
  /\ SetObj(Ev.obj, Ev.post)

TCompare ==
  /\ IsEvent("Compare")
  /\ st[Ev.obj].live /\ st[Ev.args.other].live
  /\ CompareOK(st[Ev.obj], st[Ev.args.other])
  /\ UNCHANGED <<st, hl, memo>>

TMaint ==
  /\ IsEvent("Maint")
  /\ Maint(Ev.args, Ev.res, Ev.post)
  /\ UNCHANGED <<st, hl, memo>>

TFaulted ==
  /\ IsEvent("Faulted")
  /\ Faulted(Ev.post, Ev.args, Ev.res)
  /\ UNCHANGED <<st, hl, memo>>

\* C19: calls whose inputs are outside the exact lattice (raw magnitudes, non-finite coordinates):
\* only "returns, typed, no panic, within the watchdog" is judged (IsEvent), plus refusal of
\* non-finite coordinates
TRawCall ==
  /\ IsEvent("RawCall")
  /\ Chk("C19.non-finite coordinate accepted",
         Ev.args.call \in {"insert(non-finite)", "insert_with_statistics(non-finite)", "flip_k1_insert(non-finite)"}
           => Ev.res.kind \notin {"Ok"})
  /\ Chk("C19.non-finite coordinate entered a triangulation",
         Ev.args.call = "construct(non-finite input)" => Ev.res.kind # "Ok:contains-non-finite")
  /\ UNCHANGED <<st, hl, memo>>

TRawCheck ==
  /\ IsEvent("RawCheck")
  /\ Chk("C19.refused non-finite call changed the triangulation", Ev.res.unchanged)
  /\ Chk("C19.non-finite coordinate entered a triangulation", ~Ev.res.contains_non_finite)
  /\ UNCHANGED <<st, hl, memo>>

TraceNext ==
  \/ TRawCall \/ TRawCheck \/ TInsertCopy \/ TAdopt
  \/ TFaulted \/ TMaint
  \/ TReset \/ TConstruct \/ TInsert \/ TRemove \/ TFlip \/ TRepair \/ TVerdicts
  \/ TEmpty \/ TSetPolicy \/ TLocate \/ THullCreate \/ THullQuery \/ TQueries
  \/ TClone \/ TSerDe \/ TCompare \/ TCanon \/ TConflict \/ TExtendHull

TraceSpec == TraceInit /\ [][TraceNext]_vars

\* state invariant evaluated after every line, whatever the call was:
\* ids are unique and counts are consistent in every live object
TypeOK ==
  \A o \in Objs : st[o].live =>
      /\ Cardinality(VIds(st[o])) = Len(st[o].verts)
      /\ st[o].nv = Len(st[o].verts) /\ st[o].nc = Len(st[o].cells)

TraceAccepted ==
  LET d == TLCGet("stats").diameter IN
  IF d - 1 = Len(Rec) THEN TRUE
  ELSE /\ PrintT(<<"TRACE-REJECTED", "line", d, "ev", Rec[d].ev, "tag", Rec[d].tag>>)
       /\ FALSE
=============================================================================
