SPECIFICATION TraceSpec
CONSTRAINT Progress
POSTCONDITION TraceAccepted
CHECK_DEADLOCK FALSE
