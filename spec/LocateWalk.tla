----------------------------- MODULE LocateWalk -----------------------------
(***************************************************************************)
(* MECHANISM LAYER: the facet walk of locate.rs as a state machine, one    *)
(* loop iteration per transition.  The step function itself is in          *)
(* LocateWalkOps.tla (pure operators, shared with the trace specification  *)
(* which replays the same walk on recorded complexes).                     *)
(***************************************************************************)
EXTENDS LocateWalkOps

\* the state machine (MC): every query of a finite set, every hint
CONSTANTS D, Pts, Cells, Queries, MaxSteps
VARIABLES q, hint, w
vars == <<q, hint, w>>

Ids == 1..Len(Pts)
PP  == [v \in Ids |-> Pts[v]]
\* Cells: sequence of vertex tuples (slot order); neighbours are computed: the other cell with the same facet
CellIds == 1..Len(Cells)
SetOf(t) == {t[i] : i \in 1..Len(t)}
FacetOf(t, i) == SetOf(t) \ {t[i]}
NbOf(k, i) ==
  LET o == {j \in CellIds \ {k} : FacetOf(Cells[k], i) \subseteq SetOf(Cells[j])}
  IN  IF o = {} THEN 0 ELSE CHOOSE j \in o : TRUE
CC == [k \in CellIds |-> [id |-> k, vs |-> Cells[k], nb |-> [i \in 1..(D + 1) |-> NbOf(k, i)]]]

Init == q \in Queries /\ hint \in CellIds \cup {0} /\ w = WalkInit(IF hint = 0 THEN 1 ELSE hint)
Step == w.kind = "walking" /\ w' = WalkStep(PP, CC, q, MaxSteps, w) /\ UNCHANGED <<q, hint>>
Next == Step
Spec == Init /\ [][Next]_vars /\ WF_vars(Step)

CellPts(k) == [i \in 1..(D + 1) |-> PP[Cells[k][i]]]
InSome(x)  == \E k \in CellIds : InClosedSimplex(CellPts(k), x)
IsDelaunayComplex == \A k \in CellIds : \A v \in Ids \ SetOf(Cells[k]) : InSphere(CellPts(k), PP[v]) <= 0

\* C10: a returned cell contains the query; Outside only for points of no cell (convex complexes)
Sound        == w.kind = "In" => InClosedSimplex(CellPts(w.cell), q)
OutsideRight == w.kind = "Outside" => ~InSome(q)
Complete     == w.kind \in {"In", "Outside"} /\ InSome(q) => w.kind = "In"
\* a point strictly inside one cell is answered with that cell whatever the hint
InteriorExact == w.kind = "In" => \A k \in CellIds : InOpenSimplex(CellPts(k), q) => w.cell = k
\* C19: every step visits a new cell, so the walk ends within |cells| + 1 steps
StepsBound   == w.steps <= Len(Cells) + 1 /\ Cardinality(w.vis) <= Len(Cells)
\* on a Delaunay complex the visibility walk cannot cycle: the fallback is never taken
NoScan       == ~w.scan
\* the walk itself agrees with the pure operator the trace specification uses
RunAgrees    == w.kind # "walking" => Walk(PP, CC, q, hint, MaxSteps) = w
Terminates   == <>(w.kind # "walking")
=============================================================================
