--------------------------- MODULE Gen_Measures ---------------------------
(***************************************************************************)
(* GENERATOR (spec -> implementation) for C18: TLC enumerates simplices    *)
(* with exactly representable coordinates - every simplex with first       *)
(* vertex at the origin on a tiny grid for D = 1..3, structured samples on *)
(* {0,1,2}^D for D = 4, 5 - and prints, one JSON line each, the exact      *)
(* ingredients of every measure.  `vdrive measures` replays them.          *)
(***************************************************************************)
EXTENDS Measures, FiniteSets, TLC, Json
CONSTANTS G1, G2, G3, Stride      \* grid sides for D = 1, 2, 3; sampling stride for D = 4, 5

Grid(D, side) == [1..D -> 0..(side - 1)]
Origin(D) == [j \in 1..D |-> 0]

VARIABLE done
Init == done = FALSE

\* D = 1..3: first vertex at the origin, the others anywhere on the grid (all orders)
Tuples(D, side) == {<<Origin(D)>> \o t : t \in [1..D -> Grid(D, side)]}

\* D = 4, 5: vertices taken from {0,1,2}^D by index arithmetic (deterministic sample)
Digit(n, k) == (n \div (3 ^ (k - 1))) % 3
PointOf(D, n) == [j \in 1..D |-> Digit(n, j)]
Sampled(D) == {[i \in 1..(D + 1) |-> IF i = 1 THEN Origin(D) ELSE PointOf(D, (b * i * i + 7 * i + b) % (3 ^ D))] :
                 b \in {x \in 1..(3 ^ D) : x % Stride = 1}}

\* D = 4, 5: EXACTLY FLAT simplices in generic position on {0..3}^D: D vertices sampled by index arithmetic,
\* the last one an affine combination of three of them (so the Gram determinant is exactly 0 although
\* a floating-point elimination of it need not end in an exact zero pivot)
Digit4(n, k) == (n \div (4 ^ (k - 1))) % 4
PointOf4(D, n) == [j \in 1..D |-> Digit4(n, j)]
Flat(D) == {LET t == [i \in 1..D |-> IF i = 1 THEN Origin(D) ELSE PointOf4(D, (b * i * i + 11 * i + 3 * b) % (4 ^ D))]
                u == IF b % 2 = 0 THEN 1 ELSE 4          \* which third vertex enters the combination
            IN  Append(t, [j \in 1..D |-> t[2][j] + t[3][j] - t[u][j]]) :
              b \in {x \in 1..(4 ^ D) : x % Stride = 1}}

All == Tuples(1, G1) \cup Tuples(2, G2) \cup Tuples(3, G3) \cup Sampled(4) \cup Sampled(5) \cup Flat(4) \cup Flat(5)

Next == /\ ~done
        /\ \A t \in All : PrintT(<<"VEC", ToJson(Ingredients(t))>>)
        /\ done' = TRUE
Spec == Init /\ [][Next]_done
=============================================================================
