--------------------------- MODULE Gen_Measures ---------------------------
(***************************************************************************)
(* GENERATOR (spec -> implementation) for C18: TLC enumerates simplices    *)
(* with exactly representable coordinates - every simplex with first       *)
(* vertex at the origin on a tiny grid for D = 1..3, structured samples on *)
(* {0,1,2}^D for D = 4, 5 - and prints, one JSON line each, the exact      *)
(* ingredients of every measure.  `vdrive measures` replays them.          *)
(***************************************************************************)
EXTENDS Measures, FiniteSets, TLC, Json
CONSTANTS G1, G2, G3, Stride      \* grid sides for D = 1, 2, 3; sampling stride for D = 4, 5

Grid(D, side) == [1..D -> 0..(side - 1)]
Origin(D) == [j \in 1..D |-> 0]

VARIABLE done
Init == done = FALSE

\* D = 1..3: first vertex at the origin, the others anywhere on the grid (all orders)
Tuples(D, side) == {<<Origin(D)>> \o t : t \in [1..D -> Grid(D, side)]}

\* D = 4, 5: vertices taken from {0,1,2}^D by index arithmetic (deterministic sample)
Digit(n, k) == (n \div (3 ^ (k - 1))) % 3
PointOf(D, n) == [j \in 1..D |-> Digit(n, j)]
Sampled(D) == {[i \in 1..(D + 1) |-> IF i = 1 THEN Origin(D) ELSE PointOf(D, (b * i * i + 7 * i + b) % (3 ^ D))] :
                 b \in {x \in 1..(3 ^ D) : x % Stride = 1}}

All == Tuples(1, G1) \cup Tuples(2, G2) \cup Tuples(3, G3) \cup Sampled(4) \cup Sampled(5)

Next == /\ ~done
        /\ \A t \in All : PrintT(<<"VEC", ToJson(Ingredients(t))>>)
        /\ done' = TRUE
Spec == Init /\ [][Next]_done
=============================================================================
