---------------------------- MODULE Trace_Pure ----------------------------
(* Trace validator for the stateless families: every event is judged on its own. *)
EXTENDS Pure, Json, IOUtils
Rec == ndJsonDeserialize(IOEnv.TRACE)
VARIABLE l
Ev == Rec[l]
IsEvent(e) == l <= Len(Rec) /\ Rec[l].ev = e /\ l' = l + 1 /\ TLCSet(8, l)
              /\ Chk("C19.panic", ~Rec[l].panic) /\ Chk("C19.timeout", ~Rec[l].timeout)
TInit == l = 1 /\ TLCSet(8, 0)
TReset == IsEvent("Reset")
TPred == IsEvent("Pred") /\ Pred(Ev.args, Ev.res)
TMeasure == IsEvent("Measure") /\ Measure(Ev.args, Ev.res)
THilbert == IsEvent("Hilbert") /\ Hilbert(Ev.args, Ev.res)
TOrder == IsEvent("Order") /\ Order(Ev.args, Ev.res)
TDedup == IsEvent("Dedup") /\ Dedup(Ev.args, Ev.res)
TraceNext == TReset \/ TPred \/ TMeasure \/ THilbert \/ TOrder \/ TDedup
TraceSpec == TInit /\ [][TraceNext]_l
TraceAccepted ==
  LET d == TLCGet("stats").diameter IN
  IF d - 1 = Len(Rec) THEN TRUE
  ELSE /\ PrintT(<<"TRACE-REJECTED", "line", d, "ev", Rec[d].ev, "tag", Rec[d].tag>>)
       /\ FALSE
=============================================================================
