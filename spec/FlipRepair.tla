----------------------------- MODULE FlipRepair -----------------------------
(***************************************************************************)
(* MECHANISM LAYER: bistellar flips and flip-based Delaunay repair, with   *)
(* exact geometry, on a fixed small point set.                             *)
(*                                                                         *)
(* A k-move on the (D+2)-vertex set U = A + B removes the k cells          *)
(* U \ {b} (b in B) - they share the face A - and creates the D+2-k cells  *)
(* U \ {a} (a in A), which share the face B.  The library's repair         *)
(* (flips.rs: repair_delaunay_with_flips_k2_k3 and the per-queue step      *)
(* functions) pops facets / ridges from queues and flips those that        *)
(* violate the local Delaunay condition; an attempt may be abandoned and   *)
(* restarted from the pre-repair snapshot (FIFO -> LIFO -> robust FIFO).   *)
(*                                                                         *)
(* Scramble phase : any geometrically legal move (reaches every            *)
(*                  triangulation of the point set: the flip graph of a    *)
(*                  planar point set is connected).                        *)
(* Repair phase   : only moves on locally non-Delaunay configurations.     *)
(***************************************************************************)
EXTENDS Geometry, Topology, TLC

CONSTANTS GEOMETRIC,  \* TRUE: repair flips only geometrically legal configurations (the textbook
                      \* algorithm); FALSE: as coded - flips.rs checks the star shape by counting and
                      \* refuses a flip that would create a DEGENERATE cell, but does not test that the
                      \* union of the removed cells is convex (new cells are re-oriented individually)
          Pts,        \* tuple of points; vertex ids are 1..Len(Pts)
          D,          \* dimension
          MaxScramble \* bound on the scramble phase (MC only)

VARIABLES K, phase, nflips, nscr
vars == <<K, phase, nflips, nscr>>

Ids == 1..Len(Pts)
P   == [v \in Ids |-> Pts[v]]

RECURSIVE SetToSeq(_)
SetToSeq(T) == IF T = {} THEN <<>>
               ELSE LET x == CHOOSE y \in T : \A z \in T : y <= z IN <<x>> \o SetToSeq(T \ {x})
PtsOf(T)  == [i \in 1..Cardinality(T) |-> P[SetToSeq(T)[i]]]
Vol(T)    == Abs(OrientDet(PtsOf(T)))

\* the two candidate triangulations of a (D+2)-set U
Removed(U, B) == {U \ {b} : b \in B}
Created(U, B) == {U \ {a} : a \in U \ B}

\* move on (U, B) is combinatorially applicable in KK
Applicable(KK, U, B) ==
  /\ Cardinality(U) = D + 2 /\ B \subseteq U /\ B # {} /\ B # U
  /\ Removed(U, B) \subseteq KK
  /\ CellsWith(KK, U \ B) = Removed(U, B)           \* the removed face is interior to the removed cells
  /\ Created(U, B) \cap KK = {}
\* ... and geometrically legal: both sides triangulate the same convex body
Legal(KK, U, B) ==
  /\ Applicable(KK, U, B)
  /\ \A c \in Created(U, B) : Vol(c) # 0
  /\ LET S(X) == LET f[T \in SUBSET X] == IF T = {} THEN 0
                                          ELSE LET c == CHOOSE c \in T : TRUE IN Vol(c) + f[T \ {c}]
                  IN f[X]
     IN S(Removed(U, B)) = S(Created(U, B))
Apply(KK, U, B) == (KK \ Removed(U, B)) \cup Created(U, B)

\* local Delaunay violation: some removed cell has the opposite vertex of U strictly inside
Violates(U, B) ==
  \E b \in B : InSphere(PtsOf(U \ {b}), P[b]) > 0

Moves == {ub \in (SUBSET Ids) \X (SUBSET Ids) : Cardinality(ub[1]) = D + 2 /\ ub[2] \subseteq ub[1]}
\* the move sizes the repair uses: k = 2 in every dimension, k = 3 from D = 3
RepairSizes == IF D >= 3 THEN {2, 3} ELSE {2}

DT == {T \in KSub(Ids, D + 1) :
         /\ OrientDet(PtsOf(T)) # 0
         /\ \A v \in Ids \ T : InSphere(PtsOf(T), P[v]) < 0}
\* some triangulation to start from: the Delaunay cells complemented if degenerate is not needed
\* for the point sets of the MC configs (general position, or grids handled by `Start`)
CONSTANT Start     \* a triangulation of Pts (set of cells), supplied by the config / trace

Init == K = Start /\ phase = "scramble" /\ nflips = 0 /\ nscr = 0

Scramble ==
  /\ phase = "scramble" /\ nscr < MaxScramble
  \* vertex-set preserving moves only (k = 1 and k = D+1 add / remove a vertex)
  /\ \E ub \in Moves : Cardinality(ub[2]) \in 2..D /\ Legal(K, ub[1], ub[2]) /\ K' = Apply(K, ub[1], ub[2])
  /\ nscr' = nscr + 1 /\ UNCHANGED <<phase, nflips>>

BeginRepair == phase = "scramble" /\ phase' = "repair" /\ UNCHANGED <<K, nflips, nscr>>

\* what the repair is willing to flip (see GEOMETRIC)
Flippable(KK, U, B) ==
  IF GEOMETRIC THEN Legal(KK, U, B)
  ELSE (Applicable(KK, U, B) /\ (\A c \in Created(U, B) : Vol(c) # 0))

RepairStep ==
  /\ phase = "repair"
  /\ \E ub \in Moves :
       /\ Cardinality(ub[2]) \in RepairSizes
       /\ Flippable(K, ub[1], ub[2])
       /\ Violates(ub[1], ub[2])
       /\ K' = Apply(K, ub[1], ub[2])
  /\ nflips' = nflips + 1 /\ UNCHANGED <<phase, nscr>>

Next == Scramble \/ BeginRepair \/ RepairStep
Spec == Init /\ [][Next]_vars /\ WF_vars(RepairStep)

---------------------------------------------------------------------------
NoStrictlyInside(KK) == \A c \in KK : \A v \in Ids \ c : InSphere(PtsOf(c), P[v]) <= 0
HasRepairMove(KK) ==
  \E ub \in Moves :
    (Cardinality(ub[2]) \in RepairSizes) /\ Flippable(KK, ub[1], ub[2]) /\ Violates(ub[1], ub[2])

\* oracle sanity: every triangulation reached by legal moves is a valid ball covering the hull
EveryStateIsATriangulation ==
  (GEOMETRIC \/ phase = "scramble") =>
  /\ BallFull(K, D + 1, Verts(K))
  /\ \A c \in K : Vol(c) # 0
  /\ LET S == LET f[T \in SUBSET K] == IF T = {} THEN 0
                                       ELSE LET c == CHOOSE c \in T : TRUE IN Vol(c) + f[T \ {c}]
              IN f[K]
         S0 == LET f[T \in SUBSET Start] == IF T = {} THEN 0
                                            ELSE LET c == CHOOSE c \in T : TRUE IN Vol(c) + f[T \ {c}]
               IN f[Start]
     IN S = S0

\* C07 at model level: a move preserves the combinatorial invariants and is undone by its inverse
MovesAreInvertible ==
  (GEOMETRIC \/ phase = "scramble") =>
  \A ub \in Moves :
    Cardinality(ub[2]) \in 2..D /\ Legal(K, ub[1], ub[2]) =>
      LET K2 == Apply(K, ub[1], ub[2]) IN
      /\ Legal(K2, ub[1], ub[1] \ ub[2])
      /\ Apply(K2, ub[1], ub[1] \ ub[2]) = K
      /\ Boundary(K2) = Boundary(K)
      /\ Euler(K2, D + 1) = Euler(K, D + 1)
      /\ Cardinality(K2) - Cardinality(K) = (D + 2 - Cardinality(ub[2])) - Cardinality(ub[2])

\* C08: when the repair has nothing left to flip (2-D: Lawson) no vertex is strictly inside a
\* circumsphere; in general position the result is THE Delaunay triangulation
RepairFixpointIsDelaunay ==
  phase = "repair" /\ ~HasRepairMove(K) /\ D = 2 => NoStrictlyInside(K) /\ BallFull(K, D + 1, Verts(K))
FixpointIsDT == phase = "repair" /\ ~HasRepairMove(K) /\ D = 2 /\ DT # {} /\ BallFull(DT, D + 1, Ids) => (NoStrictlyInside(K) => K = DT)
\* C08/C19: the repair phase cannot run forever (every repair move strictly improves)
RepairTerminates == <>[](phase = "repair" => ~HasRepairMove(K)) \/ []<>(phase = "scramble")
FlipBound == nflips <= ((Len(Pts) * (Len(Pts) - 1)) \div 2) * (IF D = 2 THEN 1 ELSE Len(Pts))
=============================================================================
