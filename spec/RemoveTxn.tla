------------------------------ MODULE RemoveTxn ------------------------------
(* The removal transaction (RemoveTxnOps.tla) as a state machine over every policy and every choice of the
   environment; generator of failpoint scripts for `vdrive removetxn`. *)
EXTENDS RemoveTxnOps, Json
CONSTANTS FLIP_ATOMIC, EMIT
VARIABLES cfg, s, hist
vars == <<cfg, s, hist>>
Cfgs == [repair : {"Never", "On"}, cells : BOOLEAN, atomic : {FLIP_ATOMIC}]
Init == cfg \in Cfgs /\ s = RInit /\ hist = <<>>
Next == /\ s.pc # "done"
        /\ \E c \in RChoices(cfg, s) : s' = RStep(cfg, s, c) /\ hist' = IF c = "-" THEN hist ELSE Append(hist, c)
        /\ UNCHANGED cfg
Spec == Init /\ [][Next]_vars /\ WF_vars(Next)
Done == s.pc = "done"
\* C03 / C06: a removal that reports an error leaves everything as it was
AllOrNothing == Done /\ s.outcome = "Err" => s.gen = 0 /\ s.has
\* C06: a successful removal removed the vertex
Committed == Done /\ s.outcome = "Ok" => ~s.has /\ s.gen # 0
\* C11: a call that edited the Tds at any point - also one that restored its snapshot afterwards - leaves the generation bumped
StaleAfterTouch == Done /\ s.sites # <<>> => s.bumps > 0
FoldAgrees == Done => RRun(cfg, RInit, hist) = s
Terminates == <>Done
Emit == ~(EMIT /\ Done) \/
  PrintT(<<"REPLAY", ToJson([cfg |-> cfg, choices |-> hist, outcome |-> s.outcome, sites |-> s.sites,
                               has |-> s.has, changed |-> (s.gen # 0)])>>)
=============================================================================
