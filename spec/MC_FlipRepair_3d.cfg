SPECIFICATION Spec
CONSTANTS
  GEOMETRIC = TRUE
  Pts <- GP3D
  D = 3
  MaxScramble = 12
  Start <- DTStart
INVARIANTS EveryStateIsATriangulation MovesAreInvertible FlipBound
PROPERTY RepairTerminates
CHECK_DEADLOCK FALSE
