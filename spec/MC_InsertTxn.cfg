SPECIFICATION Spec
CONSTANTS
  MaxPert = 1
  Ns = {1, 2, 3}
  Counts = {0, 1, 2, 5}
  SNAP_USES_NEXT = TRUE
  EMIT = FALSE
INVARIANTS AllOrNothing Committed AttemptsBounded NoDirtyResult FoldAgrees
PROPERTY Terminates
CHECK_DEADLOCK FALSE
