SPECIFICATION Spec
CONSTANTS
  D = 2
  Pts <- PinPts
  Cells <- PinCells
  Queries <- QPin
  MaxSteps = 10000
INVARIANTS Sound OutsideRight Complete InteriorExact StepsBound RunAgrees
PROPERTY Terminates
CHECK_DEADLOCK FALSE
