----------------------------- MODULE Topology -----------------------------
(***************************************************************************)
(* Combinatorial topology of a pure simplicial complex given by its        *)
(* maximal simplices.  K is a set of cells; a cell is a SET of vertex ids  *)
(* (all of the same cardinality n = d+1).  Everything is recomputed from   *)
(* K by face enumeration; nothing is taken from the library's validators.  *)
(***************************************************************************)
EXTENDS Integers, Sequences, FiniteSets

RECURSIVE KSub(_, _)
\* all k-element subsets of the finite set S
KSub(S, k) ==
  IF k = 0 THEN {{}}
  ELSE IF Cardinality(S) < k THEN {}
  ELSE LET x == CHOOSE y \in S : TRUE
           R == S \ {x}
       IN  KSub(R, k) \cup {T \cup {x} : T \in KSub(R, k - 1)}

Verts(K)        == UNION K
Facets(c)       == {c \ {v} : v \in c}
AllFacets(K)    == UNION {Facets(c) : c \in K}
CellsWith(K, s) == {c \in K : s \subseteq c}
FacetDeg(K, f)  == Cardinality(CellsWith(K, f))
Boundary(K)     == {f \in AllFacets(K) : FacetDeg(K, f) = 1}
\* faces with exactly k vertices
Faces(K, k)     == UNION {KSub(c, k) : c \in K}
Link(K, s)      == {c \ s : c \in CellsWith(K, s)}
Star(K, s)      == CellsWith(K, s)

Pure(K, n)        == \A c \in K : Cardinality(c) = n
FacetDegOK(K)     == \A f \in AllFacets(K) : FacetDeg(K, f) \in {1, 2}
Adjacent(a, b)    == Cardinality(a \cap b) = Cardinality(a) - 1

\* connectivity of the dual graph (cells adjacent through shared facets)
RECURSIVE Reach(_, _, _)
Reach(K, seen, frontier) ==
  IF frontier = {} THEN seen
  ELSE LET nxt == {c \in K \ seen : \E b \in frontier : Adjacent(b, c)}
       IN  Reach(K, seen \cup nxt, nxt)
DualConnected(K) ==
  K = {} \/ LET c0 == CHOOSE c \in K : TRUE IN Reach(K, {c0}, {c0}) = K

\* connectivity of a 0-dimensional-cell complex does not exist; for n = 1
\* (cells are single vertices) "connected" is not demanded.

\* Euler characteristic by face enumeration; n = vertices per cell
Euler(K, n) ==
  LET f[k \in 0..n] == IF k = 0 THEN 0
                       ELSE f[k - 1] + (IF k % 2 = 1 THEN 1 ELSE -1) * Cardinality(Faces(K, k))
  IN f[n]

FVector(K, n) == [k \in 1..n |-> Cardinality(Faces(K, k))]

\* the boundary complex is closed: every ridge of the boundary lies in exactly
\* two boundary facets
ClosedBoundary(K) ==
  LET B == Boundary(K) IN \A r \in AllFacets(B) : FacetDeg(B, r) = 2

(***************************************************************************)
(* SphereOrBall(L, n): L is a combinatorial (n-1)-sphere or (n-1)-ball in  *)
(* the standard recursive sense: pure, facet degree 1 or 2, connected,     *)
(* every vertex link again a sphere or ball one dimension down, the        *)
(* boundary (if any) closed, and the Euler characteristic that of a ball   *)
(* (boundary non-empty) or of a sphere (boundary empty).                   *)
(* IsSphere / IsBall select the case.                                      *)
(***************************************************************************)
SphereChi(n) == IF n % 2 = 1 THEN 2 ELSE 0    \* chi(S^(n-1)) = 1 + (-1)^(n-1)

RECURSIVE SphereOrBall(_, _)
SphereOrBall(L, n) ==
  /\ L # {}
  /\ Pure(L, n)
  /\ IF n = 1 THEN Cardinality(L) \in {1, 2}
     ELSE /\ FacetDegOK(L)
          /\ DualConnected(L)
          /\ LET B == Boundary(L) IN
             /\ Euler(L, n) = (IF B = {} THEN SphereChi(n) ELSE 1)
             /\ \A r \in AllFacets(B) : FacetDeg(B, r) = 2
          /\ \A v \in Verts(L) : SphereOrBall(Link(L, {v}), n - 1)

IsSphere(L, n) == SphereOrBall(L, n) /\ (IF n = 1 THEN Cardinality(L) = 2 ELSE Boundary(L) = {})
IsBall(L, n)   == SphereOrBall(L, n) /\ (IF n = 1 THEN Cardinality(L) = 1 ELSE Boundary(L) # {})

\* a 1-dimensional link (cells are 2-sets) that is a path or a cycle
PathOrCycle(G) ==
  /\ G # {}
  /\ Pure(G, 2)
  /\ FacetDegOK(G)
  /\ DualConnected(G)

\* ridge = face with n-2 vertices (codimension 2); its link is a graph
Ridges(K, n)      == Faces(K, n - 2)
RidgeLinksOK(K, n) == n < 3 \/ \A r \in Ridges(K, n) : PathOrCycle(Link(K, r))
VertexLinksOK(K, n) == \A v \in Verts(K) : SphereOrBall(Link(K, {v}), n - 1)

(***************************************************************************)
(* "Valid simplicial ball" at the three strengths the library offers.      *)
(*   Pseudomanifold   : pure, facet degree {1,2}, dual-connected, closed   *)
(*                      non-empty boundary, chi = 1                        *)
(*   PLManifold       : + every ridge link is a path or a cycle            *)
(*   PLManifoldStrict : + every vertex link is a sphere or a ball          *)
(* VS is the set of all vertex ids of the triangulation; "no isolated      *)
(* vertex" means VS = Verts(K).                                            *)
(***************************************************************************)
BallBase(K, n, VS) ==
  /\ K # {}
  /\ Pure(K, n)
  /\ FacetDegOK(K)
  /\ DualConnected(K)
  /\ Boundary(K) # {}
  /\ ClosedBoundary(K)
  /\ Verts(K) = VS
  /\ Euler(K, n) = 1

BallAt(K, n, VS, g) ==
  /\ BallBase(K, n, VS)
  /\ (g \in {"PLManifold", "PLManifoldStrict"} => RidgeLinksOK(K, n))
  /\ (g = "PLManifoldStrict" => VertexLinksOK(K, n))

\* the full certificate (what a finished construction promises)
BallFull(K, n, VS) == BallBase(K, n, VS) /\ IsBall(K, n)
=============================================================================
