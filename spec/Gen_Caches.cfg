SPECIFICATION GSpec
CONSTANTS
  Pos = {1, 2}
  Objs = {1, 2}
  MaxGen = 6
  MaxDepth = 5
  EDIT_INVALIDATES = TRUE
CONSTRAINT DepthBound
VIEW View
INVARIANT Emit
CHECK_DEADLOCK FALSE
