SPECIFICATION TraceSpec
CONSTANTS
  Pos = {1, 2, 3, 4}
  Objs = {1, 2}
  MaxGen = 1000000
  EDIT_INVALIDATES = TRUE
INVARIANTS TypeOK IndexSound HullFresh NoDuplicateAccepted
POSTCONDITION TraceAccepted
CHECK_DEADLOCK FALSE
