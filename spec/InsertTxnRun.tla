---------------------------- MODULE InsertTxnRun ----------------------------
(* The fold of InsertTxnOps!Step over a fixed sequence of environment choices (pure; used by the trace
   specification and, as FoldAgrees, cross-checked against the step-by-step machine). *)
EXTENDS InsertTxnOps

\* run to the end with a fixed sequence of choices for the choice-consuming steps (pure; used by the trace spec)
RECURSIVE TxnRun(_, _, _)
TxnRun(cfg, s, cs) ==
  IF s.pc = "done" THEN s
  ELSE IF s.pc \in {"attempt", "repair"} \/ (s.pc = "check" /\ cfg.cells /\ ShouldCheck(cfg, s.count))
       THEN IF cs = <<>> THEN s     \* ran out of choices: not a complete run
            ELSE TxnRun(cfg, Step(cfg, s, Head(cs)), Tail(cs))
       ELSE TxnRun(cfg, Step(cfg, s, "-"), cs)
=============================================================================
