------------------------------ MODULE InsertTxn ------------------------------
(***************************************************************************)
(* The insertion transaction (InsertTxnOps.tla) as a state machine: every  *)
(* policy combination, every starting insertion count, every choice of the *)
(* environment at every step.  `hist` records the choices; at the end of a *)
(* behaviour the generator configuration prints them with the predicted    *)
(* outcome as one JSON line, which `vdrive inserttxn` replays on the real  *)
(* library by arming the corresponding failpoints.                         *)
(***************************************************************************)
EXTENDS InsertTxnRun, Json

CONSTANTS MaxPert,        \* perturbation retries (the library passes 1)
          Ns,             \* values of N for the EveryN policies
          Counts,         \* insertion counts before the call
          SNAP_USES_NEXT, \* TRUE: as coded (the snapshot decision looks at the NEXT count)
          EMIT            \* TRUE: print one REPLAY line per completed behaviour

VARIABLES cfg, s, hist, count0
vars == <<cfg, s, hist, count0>>

Cfgs == [repair : {"Never", "Every", "EveryN"}, check : {"EndOnly", "EveryN"}, n : Ns, cells : BOOLEAN,
         maxPert : {MaxPert}, snapUsesNext : {SNAP_USES_NEXT}]

Init == cfg \in Cfgs /\ count0 \in Counts /\ s = TxnInit(count0) /\ hist = <<>>

Next ==
  /\ s.pc # "done"
  /\ \E c \in Choices(cfg, s) :
       /\ s' = Step(cfg, s, c)
       /\ hist' = IF c = "-" THEN hist ELSE Append(hist, c)
  /\ UNCHANGED <<cfg, count0>>

Spec == Init /\ [][Next]_vars /\ WF_vars(Next)

Pre == Persist(TxnInit(count0))
Done == s.pc = "done"

\* C02/C03: a call that does not insert leaves Tds, index, count and hint exactly as they were
AllOrNothing == Done /\ s.outcome \in {"Err", "Skipped"} => Persist(s) = Pre
\* C02/C09: a committed insertion has the vertex in the Tds and in the index, counted once
Committed == Done /\ s.outcome = "Inserted" => s.has /\ s.idx /\ s.count = count0 + 1 /\ (cfg.cells => s.hint = "new")
\* C19: bounded retries
AttemptsBounded == s.attempts <= MaxPert + 1
\* a dirty (half-built) Tds is never what the caller sees: at the end the content is the original or a committed one
NoDirtyResult == Done => (s.gen = 0) = (s.outcome # "Inserted" \/ ~s.has)
\* the pure fold agrees with the step-by-step machine (the trace spec uses the fold)
FoldAgrees == Done => TxnRun(cfg, TxnInit(count0), hist) = s
Terminates == <>Done

Emit == ~(EMIT /\ Done) \/
  PrintT(<<"REPLAY", ToJson([cfg |-> cfg, count0 |-> count0, choices |-> hist,
                               outcome |-> s.outcome, attempts |-> s.attempts, sites |-> s.sites,
                               dcount |-> s.count - count0, has |-> s.has, idx |-> s.idx, hint |-> s.hint,
                               changed |-> (s.gen # 0)])>>)
=============================================================================
