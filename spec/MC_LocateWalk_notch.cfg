SPECIFICATION Spec
CONSTANTS
  D = 2
  Pts <- GP6
  Cells <- NotchCells
  Queries <- Q2D
  MaxSteps = 10000
INVARIANTS Sound StepsBound Complete
PROPERTY Terminates
CHECK_DEADLOCK FALSE
