-------------------------- MODULE Trace_InsertTxn --------------------------
(* Trace validator for `vdrive inserttxn`: each event is one insert_with_statistics call made under a
   failpoint script that TLC generated from InsertTxn.tla; the observed call must be the run of the
   model under those choices.  The outcome of a scheduled repair cannot be forced reliably (a forced
   postcondition failure may be absorbed by the repair's own retries, and a repair can fail by itself),
   so that one choice is left to TLC: the observation has to match the model for SOME repair outcome. *)
EXTENDS InsertTxnRun, Json, IOUtils
Chk(name, cond) == IF cond THEN TRUE ELSE PrintT(<<"CONTRACT-FAIL", name>>) /\ FALSE

Rec == ndJsonDeserialize(IOEnv.TRACE)
VARIABLE l
Ev == Rec[l]
IsEvent(e) == l <= Len(Rec) /\ Rec[l].ev = e /\ l' = l + 1
              /\ Chk("C19.panic", ~Rec[l].panic) /\ Chk("C19.timeout", ~Rec[l].timeout)
TInit == l = 1

\* the scripted choices with the repair outcome replaced by x
WithRepair(cfg, count0, cs, x) ==
  LET c1 == count0 + 1
      rsched == cfg.cells /\ ShouldRepair(cfg, c1)
      \* index of the repair choice: the first choice after the attempts (the "ok" attempt ends them)
      k == IF \E i \in DOMAIN cs : cs[i] = "ok" THEN (CHOOSE i \in DOMAIN cs : cs[i] = "ok" /\ \A j \in 1..(i - 1) : cs[j] # "ok") + 1 ELSE 0
  IN  IF rsched /\ k # 0 /\ k <= Len(cs) THEN [cs EXCEPT ![k] = x] ELSE cs

Matches(p, o) ==
  /\ p.pc = "done"
  /\ p.outcome = o.kind
  /\ p.attempts = o.attempts \/ o.attempts < 0
  \* the call's own attempt sites; the check site unless a repair failure was forced (a failing repair may
  \* rebuild by re-inserting, and the nested calls pass the same sites)
  /\ SelectSeq(p.sites, LAMBDA x : x # "dt.insert.check_fails") = o.sites
  /\ (~o.repair_fired => (\E i \in DOMAIN p.sites : p.sites[i] = "dt.insert.check_fails") = o.check_seen)
  /\ p.has = o.has /\ p.idx = o.idx /\ p.hint = o.hint
  /\ (p.gen # 0) = o.changed

TTxn ==
  /\ IsEvent("Txn")
  /\ LET sc == Ev.args.script  o == Ev.res  cfg == sc.cfg  c0 == sc.count0 IN
     \* properties first, from the observation alone
     /\ Chk("C03.a call that did not insert changed the triangulation, its index, count or hint",
            o.kind \in {"Err", "Skipped"} => ~o.changed /\ o.dcount = 0 /\ ~o.has /\ ~o.idx /\ o.hint = "old")
     /\ Chk("C02.a committed insertion without the vertex", o.kind = "Inserted" => o.has /\ o.dcount = 1)
     /\ Chk("C09.a committed insertion missing from the spatial index", o.kind = "Inserted" => o.idx)
     /\ Chk("C19.more attempts than the retry budget", o.attempts <= cfg.maxPert + 1)
     \* then the mechanism
     /\ Chk("MODEL.insert is not the InsertTxn run under this script",
            \E x \in {"ok", "fail"} :
              LET p == TxnRun(cfg, TxnInit(c0), WithRepair(cfg, c0, sc.choices, x))
              IN  Matches(p, o) /\ p.count - c0 = o.dcount)
TraceNext == TTxn \/ IsEvent("Reset")
TraceSpec == TInit /\ [][TraceNext]_l
TraceAccepted ==
  LET d == TLCGet("stats").diameter IN
  IF d - 1 = Len(Rec) THEN TRUE
  ELSE /\ PrintT(<<"TRACE-REJECTED", "line", d, "ev", Rec[d].ev, "tag", Rec[d].tag>>)
       /\ FALSE
=============================================================================
