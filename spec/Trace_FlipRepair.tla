------------------------- MODULE Trace_FlipRepair -------------------------
(***************************************************************************)
(* Binding of the flip-repair mechanism model to the code.                 *)
(*                                                                         *)
(* The `delaunay_verif` flip-trace hook records every flip the repair      *)
(* loops apply during one call of repair_delaunay_with_flips[_advanced].   *)
(* Each recorded call must be explained by the model: starting from the    *)
(* pre-repair triangulation, every recorded flip is a LEGAL move (the      *)
(* removed cells are present and form the star of the removed face, the    *)
(* created cells are new, both sides fill the same convex body) on a       *)
(* LOCALLY NON-DELAUNAY configuration - the library may abandon an attempt *)
(* and restart from the pre-repair snapshot (at most 3 attempts + the      *)
(* robust pass) - and a successful call ends in the recorded post-state,   *)
(* which has no repair move left in 2-D.                                   *)
(***************************************************************************)
EXTENDS Geometry, Topology, TLC, Json, IOUtils

Rec == ndJsonDeserialize(IOEnv.TRACE)
Range(s) == {s[i] : i \in DOMAIN s}
Chk(name, cond) == IF cond THEN TRUE ELSE PrintT(<<"CONTRACT-FAIL", name>>) /\ FALSE

VARIABLES l,        \* record being explained
          i,        \* next step of that record
          K,        \* current triangulation (set of cells as sets of vertex ids)
          restarts
tvars == <<l, i, K, restarts>>

R == Rec[l]
Cells(cs) == {Range(cs[j]) : j \in DOMAIN cs}
P(v) == R.pts[v]
RECURSIVE SetToSeq(_)
SetToSeq(T) == IF T = {} THEN <<>>
               ELSE LET x == CHOOSE y \in T : \A z \in T : y <= z IN <<x>> \o SetToSeq(T \ {x})
PtsOf(T) == [j \in 1..Cardinality(T) |-> P(SetToSeq(T)[j])]
Vol(T)   == Abs(OrientDet(PtsOf(T)))
SumVol(X) == LET f[T \in SUBSET X] == IF T = {} THEN 0
                                      ELSE LET c == CHOOSE c \in T : TRUE IN Vol(c) + f[T \ {c}]
             IN f[X]
Removed(U, B) == {U \ {b} : b \in B}
Created(U, B) == {U \ {a} : a \in U \ B}
\* AS CODED (FlipRepair.tla with GEOMETRIC = FALSE): the star shape is checked by counting and a flip
\* that would create a degenerate cell is refused, but convexity of the removed cells' union is not
\* tested; `Convex` is the extra condition of the textbook algorithm
Flippable(KK, U, B) ==
  /\ Cardinality(U) = R.D + 2 /\ B \subseteq U /\ B # {} /\ B # U
  /\ Removed(U, B) \subseteq KK
  /\ CellsWith(KK, U \ B) = Removed(U, B)
  /\ Created(U, B) \cap KK = {}
  /\ \A c \in Created(U, B) : Vol(c) # 0
Convex(U, B) == SumVol(Removed(U, B)) = SumVol(Created(U, B))
Legal(KK, U, B) == Flippable(KK, U, B) /\ Convex(U, B)
Violates(U, B) == \E b \in B : InSphere(PtsOf(U \ {b}), P(b)) > 0
Apply(KK, U, B) == (KK \ Removed(U, B)) \cup Created(U, B)

TInit == TLCSet(11, 1) /\ l = 1 /\ i = 1 /\ restarts = 0 /\ (IF Len(Rec) > 0 THEN K = Cells(Rec[1].pre) ELSE K = {})

\* the recorded flip: removed face A (shared by the removed cells), inserted face B
StepOK ==
  /\ l <= Len(Rec) /\ i <= Len(R.steps)
  /\ LET A == Range(R.steps[i].A)  B == Range(R.steps[i].B)  U == A \cup B IN
     /\ Flippable(K, U, B)
     /\ (Convex(U, B) \/ PrintT(<<"NOTE", "non-convex flip", l, i>>))
     /\ Chk("MODEL.repair flipped a configuration that is not locally non-Delaunay", Violates(U, B))
     /\ Chk("MODEL.repair flip size", Cardinality(B) = R.steps[i].k)
     /\ K' = Apply(K, U, B)
  /\ i' = i + 1 /\ UNCHANGED <<l, restarts>>

\* an attempt was abandoned: the library restored its snapshot
Restart ==
  /\ l <= Len(Rec) /\ i <= Len(R.steps) /\ restarts < 4 /\ i > 1
  /\ K' = Cells(R.pre) /\ restarts' = restarts + 1 /\ UNCHANGED <<l, i>>

\* all steps explained: the result must be what the code left behind
Finish ==
  /\ l <= Len(Rec) /\ i = Len(R.steps) + 1
  /\ IF R.kind = "Ok"
     THEN /\ Chk("MODEL.recorded flips do not lead to the post-state", K = Cells(R.post))
          /\ Chk("C08.2-D repair stopped although a repair move was left",
                 R.D # 2 \/ ~\E U \in KSub(1..Len(R.pts), R.D + 2) : \E B \in KSub(U, 2) : Legal(K, U, B) /\ Violates(U, B))
     ELSE Chk("C03.failed repair left a changed triangulation", Cells(R.post) = Cells(R.pre))
  /\ l' = l + 1 /\ i' = 1 /\ restarts' = 0
  /\ K' = IF l + 1 <= Len(Rec) THEN Cells(Rec[l + 1].pre) ELSE {}

\* a failed call whose flips were rolled back need not be explained step by step beyond legality:
\* allow finishing from a restart state as well
TraceNext == StepOK \/ Restart \/ Finish
TraceSpec == TInit /\ [][TraceNext]_tvars

\* acceptance: some behaviour consumed every record
Done == l = Len(Rec) + 1
NotDone == ~Done
\* POSTCONDITION: the state space must contain a state with every record consumed
TraceAccepted ==
  IF TLCGet("stats").diameter >= 1 /\ TLCGet(11) = Len(Rec) + 1 THEN TRUE
  ELSE /\ PrintT(<<"TRACE-REJECTED", "line", TLCGet(11), "ev", "RepairTrace", "tag", Rec[TLCGet(11)].tag>>)
       /\ FALSE
\* register 11 = highest record index reached (updated from a constraint; needs -workers 1)
Progress == (IF l > TLCGet(11) THEN TLCSet(11, l) ELSE TRUE)
=============================================================================
