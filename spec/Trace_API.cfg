SPECIFICATION TraceSpec
INVARIANT TypeOK
POSTCONDITION TraceAccepted
CHECK_DEADLOCK FALSE
