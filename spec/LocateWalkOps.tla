----------------------------- MODULE LocateWalkOps ---------------------------
(***************************************************************************)
(* MECHANISM LAYER: point location by the facet walk of                    *)
(* src/core/algorithms/locate.rs (locate_with_stats, locate_by_scan,       *)
(* is_point_outside_facet), with exact geometry.                           *)
(*                                                                         *)
(* The code, one walk step at a time:                                      *)
(*   - a step that re-enters a visited cell abandons the walk (cycle) and  *)
(*     answers by the linear scan; so does the step limit;                 *)
(*   - otherwise the facets of the current cell are tried IN SLOT ORDER;   *)
(*     facet i is opposite the vertex in slot i; the query is "outside"    *)
(*     facet i when (facet, vertex i) and (facet, query) have strictly     *)
(*     opposite orientation;                                               *)
(*   - the FIRST outside facet is crossed; if there is no neighbour there, *)
(*     the answer is Outside (this is where a non-convex boundary would    *)
(*     make the walk lie);                                                 *)
(*   - no outside facet: the query is in the closed current cell.          *)
(* The scan returns the first cell IN STORAGE ORDER without an outside     *)
(* facet, else Outside.                                                    *)
(*                                                                         *)
(* A complex is given as a sequence (storage order) of cell records        *)
(* [id, vs, nb]: vs = vertex ids in slot order, nb = neighbour cell ids in *)
(* slot order (0 = none).  P maps vertex ids to integer points.            *)
(* The operators below are pure, so that the trace specification           *)
(* (Trace_API.tla) can run the very same walk on a recorded complex; the   *)
(* state machine at the end runs it one step per transition for TLC.       *)
(***************************************************************************)
EXTENDS Geometry, TLC

\* points of the slots of a cell, the facet opposite slot i first, then x
FacetThen(P, vs, i, x) == Append([j \in 1..(Len(vs) - 1) |-> P[vs[IF j < i THEN j ELSE j + 1]]], x)

\* is_point_outside_facet: strictly opposite sides
OutsideFacet(P, vs, i, q) ==
  Orient(FacetThen(P, vs, i, P[vs[i]])) * Orient(FacetThen(P, vs, i, q)) < 0

\* first outside facet in slot order (0 = none)
FirstOutside(P, vs, q) ==
  LET out == {i \in 1..Len(vs) : OutsideFacet(P, vs, i, q)}
  IN  IF out = {} THEN 0 ELSE CHOOSE i \in out : \A j \in out : i <= j

CellAt(C, id) == CHOOSE k \in 1..Len(C) : C[k].id = id

\* locate_by_scan
ScanResult(P, C, q) ==
  LET hits == {k \in 1..Len(C) : FirstOutside(P, C[k].vs, q) = 0}
  IN  IF hits = {} THEN [kind |-> "Outside", cell |-> 0]
      ELSE [kind |-> "In", cell |-> C[CHOOSE k \in hits : \A j \in hits : k <= j].id]

\* walk state: cur = current cell id, vis = visited ids, steps, res = "walking" or the answer, scan
WalkInit(start) == [cur |-> start, vis |-> {}, steps |-> 0, kind |-> "walking", cell |-> 0, scan |-> FALSE]

\* one iteration of the for-loop of locate_with_stats
WalkStep(P, C, q, maxSteps, w) ==
  IF w.steps >= maxSteps
  THEN LET r == ScanResult(P, C, q) IN [w EXCEPT !.kind = r.kind, !.cell = r.cell, !.scan = TRUE]
  ELSE
  LET n == w.steps + 1 IN
  IF w.cur \in w.vis
  THEN LET r == ScanResult(P, C, q) IN [w EXCEPT !.steps = n, !.kind = r.kind, !.cell = r.cell, !.scan = TRUE]
  ELSE LET c == C[CellAt(C, w.cur)]
           i == FirstOutside(P, c.vs, q)
       IN  IF i = 0 THEN [w EXCEPT !.steps = n, !.vis = @ \cup {w.cur}, !.kind = "In", !.cell = w.cur]
           ELSE IF c.nb[i] = 0 THEN [w EXCEPT !.steps = n, !.vis = @ \cup {w.cur}, !.kind = "Outside"]
           ELSE [w EXCEPT !.steps = n, !.vis = @ \cup {w.cur}, !.cur = c.nb[i]]

RECURSIVE WalkRun(_, _, _, _, _)
WalkRun(P, C, q, maxSteps, w) ==
  IF w.kind # "walking" THEN w ELSE WalkRun(P, C, q, maxSteps, WalkStep(P, C, q, maxSteps, w))

\* the whole call: hint = id of a live cell, or 0 (no / stale / foreign hint: first cell in storage order)
Walk(P, C, q, hint, maxSteps) ==
  WalkRun(P, C, q, maxSteps, WalkInit(IF hint # 0 /\ \E k \in 1..Len(C) : C[k].id = hint THEN hint ELSE C[1].id))
=============================================================================
