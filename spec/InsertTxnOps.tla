---------------------------- MODULE InsertTxnOps ----------------------------
(***************************************************************************)
(* MECHANISM LAYER: the transaction structure of one incremental insertion *)
(* (DelaunayTriangulation::insert / insert_with_statistics, which wrap     *)
(* Triangulation::insert_transactional), as a step function.               *)
(*                                                                         *)
(* What the code does (delaunay_triangulation.rs:4836-4915,                *)
(* triangulation.rs:2954-3160):                                            *)
(*   outer  : decide whether a snapshot (Tds, insertion state, spatial     *)
(*            index) is needed: cells can exist after the insertion AND    *)
(*            (repair policy /= Never OR the check policy schedules a      *)
(*            check for the NEXT insertion count);                         *)
(*   inner  : up to MaxPert + 1 attempts; each attempt checks for a        *)
(*            duplicate, clones the Tds, mutates it, and on ANY error      *)
(*            restores the clone; a retryable error perturbs and retries,  *)
(*            exhausted retries and duplicates are `Skipped` (Ok), other   *)
(*            errors are returned; on success the vertex enters the index; *)
(*   post   : the hint and the insertion count are updated, then the flip  *)
(*            repair runs if the policy schedules it for the new count     *)
(*            (it mutates the Tds and may fail), then the scheduled global *)
(*            check (may fail);                                            *)
(*   finish : an error after the inner call restores the outer snapshot    *)
(*            if there is one.                                             *)
(*                                                                         *)
(* Abstract state s:                                                       *)
(*   gen   - identity of the Tds content (every mutation makes a new one)  *)
(*   has   - the new vertex is in the Tds                                  *)
(*   idx   - the new vertex is in the spatial index                        *)
(*   count - delaunay_repair_insertion_count                               *)
(*   hint  - "old" / "new" (last_inserted_cell)                            *)
(* and the program counter, attempt number, snapshots and the outcome.     *)
(* The environment (geometry, forced failures) is a record of choices      *)
(* consumed by Step; the pure Run folds Step to the end.                   *)
(***************************************************************************)
EXTENDS Integers, Sequences, FiniteSets, TLC

\* Apalache type annotations (comments for TLC):
\* @typeAlias: cfg = { repair: Str, check: Str, n: Int, cells: Bool, maxPert: Int, snapUsesNext: Bool };
\* @typeAlias: snap = { some: Bool, gen: Int, has: Bool, idx: Bool, count: Int, hint: Str };
\* @typeAlias: st = { pc: Str, gen: Int, has: Bool, idx: Bool, count: Int, hint: Str, fresh: Int, attempt: Int,
\*                    snapO: $snap, snapI: Int, outcome: Str, attempts: Int, sites: Seq(Str) };
InsertTxnOps_aliases == TRUE

\* policies: repair \in {"Never", "Every", "EveryN"}, check \in {"EndOnly", "EveryN"}; n = the N of EveryN
\* @type: ($cfg, Int) => Bool;
ShouldRepair(cfg, count) ==
  CASE cfg.repair = "Never" -> FALSE
    [] cfg.repair = "Every" -> TRUE
    [] OTHER -> count % cfg.n = 0
\* @type: ($cfg, Int) => Bool;
ShouldCheck(cfg, count) == cfg.check = "EveryN" /\ count % cfg.n = 0

\* @type: $snap;
NoSnap == [some |-> FALSE, gen |-> 0, has |-> FALSE, idx |-> FALSE, count |-> 0, hint |-> "old"]
\* @type: $st => { gen: Int, has: Bool, idx: Bool, count: Int, hint: Str };
Persist(s) == [gen |-> s.gen, has |-> s.has, idx |-> s.idx, count |-> s.count, hint |-> s.hint]

\* cfg additionally: cells (cells can exist after the insertion), maxPert, snapUsesNext (TRUE = as coded)
\* @type: Int => $st;
TxnInit(count0) ==
  [pc |-> "outer", gen |-> 0, has |-> FALSE, idx |-> FALSE, count |-> count0, hint |-> "old",
   fresh |-> 1, attempt |-> 0, snapO |-> NoSnap, snapI |-> 0, outcome |-> "none", attempts |-> 0, sites |-> <<>>]

\* c = the environment's choice for this step:
\*   at "attempt": "dup" | "ok" | "R" (retryable error after mutating) | "N" (non-retryable error after mutating)
\*                 | "fR" | "fN" (an attempt that succeeded and is then reported as failed by a failpoint)
\*   at "repair" / "check": "ok" | "fail"
\* @type: ($cfg, $st, Str) => $st;
Step(cfg, s, c) ==
  CASE s.pc = "outer" ->
         LET next == s.count + 1
             needed == cfg.cells /\ (cfg.repair # "Never" \/ ShouldCheck(cfg, IF cfg.snapUsesNext THEN next ELSE s.count))
         IN  [s EXCEPT !.pc = "attempt",
                       !.snapO = IF needed THEN [some |-> TRUE, gen |-> s.gen, has |-> s.has, idx |-> s.idx,
                                                 count |-> s.count, hint |-> s.hint]
                                 ELSE NoSnap]
    [] s.pc = "attempt" ->
         IF c = "dup" THEN [s EXCEPT !.pc = "done", !.outcome = "Skipped", !.attempts = s.attempt + 1]
         ELSE
         LET dirty == [s EXCEPT !.snapI = s.gen, !.gen = s.fresh, !.fresh = @ + 1, !.attempts = s.attempt + 1]
             back  == [dirty EXCEPT !.gen = dirty.snapI]
             \* failpoint sites are evaluated only when the attempt itself succeeded
             logN  == Append(s.sites, "tri.insert.fail_nonretryable")
             logR  == Append(logN, "tri.insert.fail_retryable")
         IN  IF c = "ok" THEN [dirty EXCEPT !.has = TRUE, !.idx = TRUE, !.pc = "post", !.sites = logR]
             ELSE IF c \in {"N", "fN"}
             THEN [back EXCEPT !.pc = "finish", !.outcome = "Err", !.sites = IF c = "fN" THEN logN ELSE s.sites]
             ELSE \* "R", "fR"
                  LET b2 == [back EXCEPT !.sites = IF c = "fR" THEN logR ELSE s.sites] IN
                  IF s.attempt < cfg.maxPert THEN [b2 EXCEPT !.attempt = @ + 1]
                  ELSE [b2 EXCEPT !.pc = "done", !.outcome = "Skipped"]
    [] s.pc = "post" ->
         \* the hint is the cell the inner call returns: there is none while the triangulation has no cells
         LET t == [s EXCEPT !.hint = IF cfg.cells THEN "new" ELSE @, !.count = @ + 1] IN
         IF cfg.cells /\ ShouldRepair(cfg, t.count) THEN [t EXCEPT !.pc = "repair"] ELSE [t EXCEPT !.pc = "check"]
    [] s.pc = "repair" ->
         \* the repair flips (new content) and then succeeds or fails
         LET t == [s EXCEPT !.gen = s.fresh, !.fresh = @ + 1] IN
         IF c = "ok" THEN [t EXCEPT !.pc = "check"] ELSE [t EXCEPT !.pc = "finish", !.outcome = "Err"]
    [] s.pc = "check" ->
         IF cfg.cells /\ ShouldCheck(cfg, s.count)
         THEN LET t == [s EXCEPT !.sites = Append(@, "dt.insert.check_fails")] IN
              IF c = "ok" THEN [t EXCEPT !.pc = "done", !.outcome = "Inserted"]
              ELSE [t EXCEPT !.pc = "finish", !.outcome = "Err"]
         ELSE [s EXCEPT !.pc = "done", !.outcome = "Inserted"]
    [] s.pc = "finish" ->
         IF s.snapO.some
         THEN [s EXCEPT !.pc = "done", !.gen = s.snapO.gen, !.has = s.snapO.has, !.idx = s.snapO.idx,
                        !.count = s.snapO.count, !.hint = s.snapO.hint]
         ELSE [s EXCEPT !.pc = "done"]
    [] OTHER -> s

\* which steps consume an environment choice, and which choices exist there
\* @type: ($cfg, $st) => Set(Str);
Choices(cfg, s) ==
  CASE s.pc = "attempt" -> {"dup", "ok", "R", "N", "fR", "fN"}
    [] s.pc = "repair"  -> {"ok", "fail"}
    [] s.pc = "check"   -> IF cfg.cells /\ ShouldCheck(cfg, s.count) THEN {"ok", "fail"} ELSE {"-"}
    [] OTHER -> {"-"}
=============================================================================
