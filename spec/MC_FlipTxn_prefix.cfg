SPECIFICATION Spec
CONSTANTS
  ATOMIC = FALSE
  CTXCLEAN = FALSE
  EMIT = FALSE
INVARIANTS RefusedIsNoOp RefusedIsNoOp Committed StaleWhenChanged NoOverlapNoHole FoldAgrees
PROPERTY Terminates
CHECK_DEADLOCK FALSE
