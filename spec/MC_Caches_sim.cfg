\* the Edit-API wrapper going through as_triangulation_mut()
SPECIFICATION Spec
CONSTANTS
  Pos = {1, 2}
  Objs = {1, 2}
  MaxGen = 400
  MaxDepth = 60
  EDIT_INVALIDATES = TRUE
CONSTRAINTS DepthBound GenBound
VIEW View
INVARIANTS TypeOK IndexSound HullFresh NoDuplicateAccepted IndexComplete
PROPERTY RefusalsChangeNothing
CHECK_DEADLOCK FALSE
