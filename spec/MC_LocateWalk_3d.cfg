SPECIFICATION Spec
CONSTANTS
  D = 3
  Pts <- GP3D
  Cells <- GP3DDT
  Queries <- Q3D
  MaxSteps = 10000
INVARIANTS Sound OutsideRight Complete InteriorExact StepsBound NoScan RunAgrees
PROPERTY Terminates
CHECK_DEADLOCK FALSE
