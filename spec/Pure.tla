------------------------------- MODULE Pure -------------------------------
(***************************************************************************)
(* Contracts of the pure functions: geometric predicates (C12), simplex    *)
(* measures (C18), Hilbert curve / orderings / dedup (C17), toroidal       *)
(* canonicalisation (C16).  Inputs are lattice integers m with a common    *)
(* scale 2^s; every exact value is computed here with integers.            *)
(***************************************************************************)
EXTENDS Tolerance, Topology, Measures, TLC

Range(s) == {s[i] : i \in DOMAIN s}
\* The stateless families judge every event on its own, so a failed conjunct does not have to stop the
\* validation: it is REPORTED with the line number of its event (TLC register 8, set by Trace_Pure) and
\* the run goes on; ./check turns every reported line into a rejection (KNOWN-FINDING / VIOLATION).
Chk(name, cond) == IF cond THEN TRUE ELSE PrintT(<<"SOFT-FAIL", TLCGet(8), name>>)

---------------------------------------------------------------------------
\* parity sign of a permutation given as a tuple p of 1..n
PermSign(p) ==
  IF Cardinality({x \in (DOMAIN p) \X (DOMAIN p) : x[1] < x[2] /\ p[x[1]] > p[x[2]]}) % 2 = 0 THEN 1 ELSE -1

Strict(x) == x \in {-1, 1}

\* ---- C12 ------------------------------------------------------------------------
Pred(a, r) ==
  LET D == a.D  s == a.s  ps == a.pts  q == a.q
      \* the library's documented convention (docs/ORIENTATION_SPEC.md): sign of det [coords | 1],
      \* which equals (-1)^D times the edge-vector determinant
      od == Det([i \in DOMAIN ps |-> Append(ps[i], 1)])
      eo == Sgn(od)
      ld == LiftedDet(ps, q)
      ei == InSphere(ps, q)              \* orientation-normalised exact answer
      all == Append(ps, q)
      decO == DecOrient(od, s, D, ps)
      decI == decO /\ DecSphere(ld, s, D, all)
      zeroO == ZeroOrientOK(s, D, ps)
      zeroI == ZeroSphereOK(s, D, all)
  IN
  /\ Chk("C19.panic in predicate", Len(r.rows) > 0)
  /\ \A i \in DOMAIN r.rows :
       LET w == r.rows[i]  sg == PermSign(w.p) IN
       /\ Chk("C12.orientation sign", decO => w.fo = eo * sg /\ w.ro = eo * sg /\ w.so = eo * sg /\ w.rof = eo * sg)
       /\ Chk("C12.orientation of a degenerate simplex", od = 0 /\ zeroO => w.fo = 0 /\ w.ro = 0 /\ w.so = 0 /\ w.rof = 0)
       /\ Chk("C12.in-sphere sign",
              decI => w.fi = ei /\ w.ri = ei /\ w.is = ei /\ w.il = ei /\ w.rf = ei /\ w.id = ei)
       /\ Chk("C12.in-sphere of a cospherical point",
              decO /\ ld = 0 /\ zeroI => w.fi = 0 /\ w.ri = 0 /\ w.is = 0 /\ w.il = 0 /\ w.rf = 0)
  \* never opposite strict answers: across kernels, formulations and reorderings
  /\ Chk("C12.opposite orientation answers",
         decO \/ (od = 0 /\ zeroO) =>
           ~\E i, j \in DOMAIN r.rows :
              \E x \in {r.rows[i].fo, r.rows[i].ro, r.rows[i].so, r.rows[i].rof} :
              \E y \in {r.rows[j].fo, r.rows[j].ro, r.rows[j].so, r.rows[j].rof} :
                 Strict(x) /\ Strict(y) /\ x * PermSign(r.rows[i].p) = -(y * PermSign(r.rows[j].p)))
  /\ Chk("C12.opposite in-sphere answers",
         decO /\ (decI \/ (ld = 0 /\ zeroI)) =>
           ~\E i, j \in DOMAIN r.rows :
              \E x \in {r.rows[i].fi, r.rows[i].ri, r.rows[i].is, r.rows[i].il, r.rows[i].rf, r.rows[i].id} :
              \E y \in {r.rows[j].fi, r.rows[j].ri, r.rows[j].is, r.rows[j].il, r.rows[j].rf, r.rows[j].id} :
                 Strict(x) /\ Strict(y) /\ x = -y)

\* ---- C18 ------------------------------------------------------------------------
\* The vectors replayed are the spec's own (Gen_Measures); the exact determinant is recomputed
\* here from the logged points (binding generator -> replay), the degeneracy class is decided
\* here, and every floating-point comparison the harness made against the exact ingredients
\* (relative tolerance 1e-9) must have succeeded.
Measure(a, r) ==
  LET det == Det(Edges(a.pts)) IN
  /\ Chk("C18.vector is not the spec's", det = a.det /\ Len(a.pts) = a.D + 1)
  /\ Chk("C19.panic in a measure", Len(r.checks) > 0)
  /\ Chk("C18.degeneracy class",
         \A i \in DOMAIN r.checks :
            LET n == r.checks[i].n IN
            (det = 0) = (n \in {"volume(degenerate)", "circumcenter(degenerate)", "circumradius(degenerate)",
                                "inradius(degenerate)", "radius_ratio(degenerate)", "normalized_volume(degenerate)"}))
  /\ \A i \in DOMAIN r.checks :
       IF r.checks[i].ok THEN TRUE
       ELSE PrintT(<<"SOFT-FAIL", TLCGet(8), "C18." \o r.checks[i].n>>)

\* ---- C17 ------------------------------------------------------------------------
Pow(b, e) == IF e = 0 THEN 1 ELSE LET RECURSIVE P(_) P(k) == IF k = 0 THEN 1 ELSE b * P(k - 1) IN P(e)
L1(a, b) == Sum([j \in DOMAIN a |-> Abs(a[j] - b[j])])

\* table[k] = index of the k-th grid cell in lexicographic order; curve = cells by increasing index
Hilbert(a, r) ==
  LET D == a.D  side == Pow(2, a.bits)  N == Pow(side, D)
      CellIndex(c) == 1 + Sum([j \in 1..D |-> c[j] * Pow(side, D - j)])
  IN
  /\ Chk("C17.hilbert table refused", r.kind = "Ok")
  /\ Chk("C17.hilbert table size", Len(r.table) = N /\ Len(r.curve) = N)
  /\ Chk("C17.hilbert cells", \A i \in 1..N : Len(r.curve[i]) = D /\ \A j \in 1..D : r.curve[i][j] \in 0..(side - 1))
  /\ Chk("C17.hilbert index is not injective", Cardinality({r.curve[i] : i \in 1..N}) = N)
  /\ Chk("C17.hilbert index range is not 0..N-1", \A i \in 1..N : r.table[CellIndex(r.curve[i])] = i - 1)
  /\ Chk("C17.consecutive hilbert indices are not adjacent cells",
         \A i \in 1..(N - 1) : L1(r.curve[i], r.curve[i + 1]) = 1)
  /\ Chk("C17.float entry point disagrees with the table", r.float_ok)

Order(a, r) ==
  LET ids == {a.input[i].id : i \in DOMAIN a.input}  n == Len(a.input) IN
  /\ Chk("C19.panic in ordering", Len(r.outs) > 0)
  /\ \A k \in DOMAIN r.outs :
       Chk("C17.ordering is not a permutation",
           Len(r.outs[k].out) = n /\ Range(r.outs[k].out) = ids)
  /\ Chk("C17.balanced simplex indices",
         Len(r.balanced) = 0 \/ (Len(r.balanced) = a.D + 1 /\ Cardinality(Range(r.balanced)) = a.D + 1
                                 /\ Range(r.balanced) \subseteq 1..n))

Dedup(a, r) ==
  LET n == Len(a.input)
      H == [x \in {a.input[i].id : i \in 1..n} |-> (CHOOSE y \in Range(a.input) : y.id = x).h]
      ids == DOMAIN H
      e2 == a.eh * a.eh
  IN
  /\ Chk("C19.panic in dedup", Len(r.outs) > 0)
  /\ \A k \in DOMAIN r.outs :
       LET o == r.outs[k]  S == Range(o.out) IN
       /\ Chk("C17.dedup invents or duplicates a vertex", S \subseteq ids /\ Cardinality(S) = Len(o.out))
       /\ o.kind = "exact" =>
            Chk("C17.exact dedup: one representative per coordinate tuple",
                {H[x] : x \in S} = {H[x] : x \in ids} /\ Cardinality(S) = Cardinality({H[x] : x \in ids}))
       /\ o.kind = "eps" =>
            /\ Chk("C17.epsilon dedup: two survivors within the tolerance",
                   \A x, y \in S : x # y => Dist2(H[x], H[y]) >= e2)
            /\ Chk("C17.epsilon dedup: dropped vertex not within the tolerance of a survivor",
                   \A x \in ids \ S : \E y \in S : Dist2(H[x], H[y]) < e2)
=============================================================================
