---------------------------- MODULE FlipTxnOps ----------------------------
(***************************************************************************)
(* MECHANISM LAYER: the transaction structure of ONE explicit bistellar    *)
(* flip (Edit API: flip_k1_insert / flip_k2 / flip_k1_remove), i.e.        *)
(* apply_bistellar_flip_with_k (core/algorithms/flips.rs:216) and its k=1  *)
(* wrappers (flips.rs:2315, :2355):                                        *)
(*                                                                         *)
(*   vert   : k1ins only - the new vertex is inserted into the Tds BEFORE   *)
(*            the flip context is built;                                    *)
(*   ctx    : the flip context is built from the caller's handle (cell,    *)
(*            facet, vertex); a bad handle is an error return;             *)
(*   insert : the new cells are inserted            (site after_insert)    *)
(*   wire   : their neighbours are wired, the external neighbours now      *)
(*            point at the new cells                (site after_wire)      *)
(*   remove : the old cells are deleted             (site after_remove)    *)
(*   norm   : orientation normalisation; k1rem: the vertex is deleted      *)
(*   comp   : what the wrapper does with an error of the application:      *)
(*            k1ins calls Tds::remove_vertex on the new vertex, which also *)
(*            deletes every cell that contains it (= the new cells);       *)
(*            the other kinds return the error as it is (KF-C03-1).        *)
(* ATOMIC = TRUE models an application that undoes itself on error.        *)
(* CTXCLEAN = TRUE: k1ins removes its vertex again when the context cannot *)
(* be built (FALSE is the code before fix F-M: the vertex stayed behind).  *)
(* `bumps` counts generation increments: C11 needs one whenever the        *)
(* content differs from the content at the start of the call.              *)
(***************************************************************************)
EXTENDS Integers, Sequences, FiniteSets, TLC

FInit == [pc |-> "vert", vert |-> FALSE, newIn |-> FALSE, oldIn |-> TRUE, wired |-> FALSE, tgt |-> TRUE,
          bumps |-> 0, outcome |-> "none", sites |-> <<>>]

\* cfg: kind \in {"k1ins", "k2", "k1rem"}, atomic, ctxclean
\* choices: at "ctx": "ok" | "bad"; at "insert", "wire", "remove": "ok" | "fail"
FStep(cfg, s, c) ==
  LET log(x) == Append(s.sites, x)
      bump(t) == [t EXCEPT !.bumps = @ + 1]
      restore(t) == [t EXCEPT !.vert = FALSE, !.newIn = FALSE, !.oldIn = TRUE, !.wired = FALSE, !.tgt = TRUE]
  IN
  CASE s.pc = "vert" -> IF cfg.kind = "k1ins" THEN bump([s EXCEPT !.vert = TRUE, !.pc = "ctx"]) ELSE [s EXCEPT !.pc = "ctx"]
    [] s.pc = "ctx" ->
         IF c = "ok" THEN [s EXCEPT !.pc = "insert"]
         ELSE IF cfg.kind = "k1ins" /\ cfg.ctxclean THEN bump([s EXCEPT !.vert = FALSE, !.pc = "done", !.outcome = "Err"])
         ELSE [s EXCEPT !.pc = "done", !.outcome = "Err"]
    [] s.pc = "insert" ->
         LET t == bump([s EXCEPT !.newIn = TRUE, !.sites = log("flip.after_insert_cells")]) IN
         IF c = "ok" THEN [t EXCEPT !.pc = "wire"] ELSE [t EXCEPT !.pc = "comp"]
    [] s.pc = "wire" ->
         LET t == [s EXCEPT !.wired = TRUE, !.sites = log("flip.after_wire")] IN
         IF c = "ok" THEN [t EXCEPT !.pc = "remove"] ELSE [t EXCEPT !.pc = "comp"]
    [] s.pc = "remove" ->
         LET t == bump([s EXCEPT !.oldIn = FALSE, !.sites = log("flip.after_remove_cells")]) IN
         IF c = "ok" THEN [t EXCEPT !.pc = "norm"] ELSE [t EXCEPT !.pc = "comp"]
    [] s.pc = "norm" ->
         IF cfg.kind = "k1rem" THEN bump([s EXCEPT !.tgt = FALSE, !.pc = "done", !.outcome = "Ok"])
         ELSE [s EXCEPT !.pc = "done", !.outcome = "Ok"]
    [] s.pc = "comp" ->
         IF cfg.atomic THEN bump([restore(s) EXCEPT !.pc = "done", !.outcome = "Err"])
         ELSE IF cfg.kind = "k1ins" THEN bump([s EXCEPT !.vert = FALSE, !.newIn = FALSE, !.pc = "done", !.outcome = "Err"])
         ELSE [s EXCEPT !.pc = "done", !.outcome = "Err"]
    [] OTHER -> s

FChoices(cfg, s) ==
  CASE s.pc = "ctx" -> {"ok", "bad"}
    [] s.pc \in {"insert", "wire", "remove"} -> {"ok", "fail"}
    [] OTHER -> {"-"}

\* the content of the Tds differs from the content at the start of the call
FChanged(s) == s.vert \/ s.newIn \/ ~s.oldIn \/ s.wired \/ ~s.tgt

RECURSIVE FRun(_, _, _)
FRun(cfg, s, cs) ==
  IF s.pc = "done" THEN s
  ELSE IF FChoices(cfg, s) = {"-"} THEN FRun(cfg, FStep(cfg, s, "-"), cs)
       ELSE IF cs = <<>> THEN s ELSE FRun(cfg, FStep(cfg, s, Head(cs)), Tail(cs))
=============================================================================
