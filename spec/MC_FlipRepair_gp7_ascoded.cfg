SPECIFICATION Spec
CONSTANTS
  GEOMETRIC = FALSE
  Pts <- GP7
  D = 2
  MaxScramble = 20
  Start <- DTStart
INVARIANTS EveryStateIsATriangulation MovesAreInvertible RepairFixpointIsDelaunay FixpointIsDT FlipBound
PROPERTY RepairTerminates
CHECK_DEADLOCK FALSE
