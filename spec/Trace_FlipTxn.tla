-------------------------- MODULE Trace_FlipTxn --------------------------
(* Trace validator for `vdrive fliptxn`: each event is one explicit flip (flip_k1_insert / flip_k2 / flip_k1_remove)
   made under a failpoint script generated from FlipTxn.tla (as coded: ATOMIC = FALSE, CTXCLEAN = TRUE).
   Properties are judged from the observation alone, then the observation has to be the model's run. *)
EXTENDS FlipTxnOps, Json, IOUtils
Chk(name, cond) == IF cond THEN TRUE ELSE PrintT(<<"CONTRACT-FAIL", name>>) /\ FALSE
Rec == ndJsonDeserialize(IOEnv.TRACE)
VARIABLE l
Ev == Rec[l]
IsEvent(e) == l <= Len(Rec) /\ Rec[l].ev = e /\ l' = l + 1
              /\ Chk("C19.panic", ~Rec[l].panic) /\ Chk("C19.timeout", ~Rec[l].timeout)
TInit == l = 1

TFTxn ==
  /\ IsEvent("FTxn")
  /\ LET sc == Ev.args.script  o == Ev.res  cfg == sc.cfg
         p  == FRun(cfg, FInit, sc.choices)
         k1i == cfg.kind = "k1ins"  k1r == cfg.kind = "k1rem" IN
     \* C03: refused handle (no step of the application ran) = nothing changed, whatever the application does on late errors
     /\ Chk("C03.a flip refused before its application changed the triangulation", o.kind = "Err" /\ o.sites = <<>> => ~o.changed /\ o.valid)
     /\ Chk("C03.failed flip leaves state unchanged", o.kind = "Err" => ~o.changed)
     /\ Chk("C07.a successful flip did not replace the old cells by the new ones",
            o.kind = "Ok" => o.new_in /\ ~o.old_in /\ o.valid /\ (k1i => o.watch_in) /\ (k1r => ~o.watch_in))
     /\ Chk("C11.the triangulation changed and a hull taken before still answers", o.changed => o.hull_stale /\ o.gen_changed)
     /\ Chk("MODEL.the explicit flip is not the FlipTxn run under this script",
            /\ p.pc = "done" /\ p.outcome = o.kind /\ p.sites = o.sites /\ FChanged(p) = o.changed
            /\ p.newIn = o.new_in /\ p.oldIn = o.old_in /\ (p.bumps > 0) = o.gen_changed
            /\ (k1i => p.vert = o.watch_in) /\ (k1r => p.tgt = o.watch_in))
TraceNext == TFTxn \/ IsEvent("Reset")
TraceSpec == TInit /\ [][TraceNext]_l
TraceAccepted ==
  LET d == TLCGet("stats").diameter IN
  IF d - 1 = Len(Rec) THEN TRUE
  ELSE /\ PrintT(<<"TRACE-REJECTED", "line", d, "ev", Rec[d].ev, "tag", Rec[d].tag>>)
       /\ FALSE
=============================================================================
