SPECIFICATION TraceSpec
POSTCONDITION TraceAccepted
CHECK_DEADLOCK FALSE
