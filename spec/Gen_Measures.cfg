SPECIFICATION Spec
CONSTANTS
  G1 = 6
  G2 = 4
  G3 = 2
  Stride = 3
CHECK_DEADLOCK FALSE
