\* the Edit-API wrapper as in the pinned revision (touches no cache)
SPECIFICATION Spec
CONSTANTS
  Pos = {1, 2}
  Objs = {1, 2}
  MaxGen = 6
  MaxDepth = 6
  EDIT_INVALIDATES = FALSE
CONSTRAINTS DepthBound GenBound
VIEW View
INVARIANTS TypeOK IndexSound HullFresh NoDuplicateAccepted IndexComplete
CHECK_DEADLOCK FALSE
