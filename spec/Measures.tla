----------------------------- MODULE Measures -----------------------------
(***************************************************************************)
(* Exact ingredients of the simplex measures (C18), all integers:          *)
(*   det      edge-vector determinant            volume = |det| / D!       *)
(*   gram[i]  Gram determinant of the facet opposite vertex i              *)
(*                                    facet measure = sqrt(gram) / (D-1)!  *)
(*   ccn, ccd circumcentre = p1 + ccn / ccd  (Cramer; ccd = 2 det)         *)
(*   r2n,r2d  squared circumradius = r2n / r2d                             *)
(*   e2       squared edge lengths                                         *)
(* The harness turns them into the expected floating-point values; what    *)
(* this module decides is the exact value and the degeneracy class.        *)
(***************************************************************************)
EXTENDS Geometry

Edges(ps) == [i \in 1..(Len(ps) - 1) |-> VSub(ps[i + 1], ps[1])]

\* Gram determinant of the simplex spanned by the points fs (any number of points)
Gram(fs) ==
  LET es == [i \in 1..(Len(fs) - 1) |-> VSub(fs[i + 1], fs[1])] IN
  IF Len(es) = 0 THEN 1
  ELSE Det([i \in 1..Len(es) |-> [j \in 1..Len(es) |-> Dot(es[i], es[j])]])

FacetOpp(ps, i) == [k \in 1..(Len(ps) - 1) |-> IF k < i THEN ps[k] ELSE ps[k + 1]]

\* circumcentre relative to ps[1]: solve 2 E x = b, b_i = |e_i|^2, by Cramer's rule
CCNum(ps) ==
  LET E == Edges(ps)  D == Len(E)
      b == [i \in 1..D |-> Norm2(E[i])]
  IN  [j \in 1..D |-> Det([i \in 1..D |-> [k \in 1..D |-> IF k = j THEN b[i] ELSE E[i][k]]])]
CCDen(ps) == 2 * Det(Edges(ps))

Ingredients(ps) ==
  LET D == Len(ps) - 1
      n == CCNum(ps)
      d == CCDen(ps)
  IN [D |-> D, pts |-> ps,
      det |-> Det(Edges(ps)),
      gram |-> [i \in 1..(D + 1) |-> Gram(FacetOpp(ps, i))],
      ccn |-> n, ccd |-> d,
      r2n |-> Norm2(n), r2d |-> d * d,
      e2 |-> [i \in 1..(D + 1) |-> [j \in 1..(D + 1) |-> Dist2(ps[i], ps[j])]]]
=============================================================================
