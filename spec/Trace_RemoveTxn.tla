-------------------------- MODULE Trace_RemoveTxn --------------------------
(* Trace validator for `vdrive removetxn`: each event is one remove_vertex call made under a failpoint
   script generated from RemoveTxn.tla (as coded: FLIP_ATOMIC = FALSE).  Properties are judged from the
   observation alone, then the observation has to be the model's run; the outcome of the post-removal
   repair is left to TLC (a forced postcondition failure may be absorbed). *)
EXTENDS RemoveTxnOps, Json, IOUtils
Chk(name, cond) == IF cond THEN TRUE ELSE PrintT(<<"CONTRACT-FAIL", name>>) /\ FALSE
Rec == ndJsonDeserialize(IOEnv.TRACE)
VARIABLE l
Ev == Rec[l]
IsEvent(e) == l <= Len(Rec) /\ Rec[l].ev = e /\ l' = l + 1
              /\ Chk("C19.panic", ~Rec[l].panic) /\ Chk("C19.timeout", ~Rec[l].timeout)
TInit == l = 1

WithLast(cs, x) == IF Len(cs) >= 2 /\ cs[Len(cs)] \in {"ok", "fail"} THEN [cs EXCEPT ![Len(cs)] = x] ELSE cs

TRTxn ==
  /\ IsEvent("RTxn")
  /\ LET sc == Ev.args.script  o == Ev.res  cfg == sc.cfg IN
     /\ Chk("C03.a removal that reported an error changed the triangulation", o.kind = "Err" => ~o.changed /\ o.has)
     /\ Chk("C06.a successful removal left the vertex in place", o.kind = "Ok" => ~o.has /\ o.changed)
     /\ Chk("C11.a removal edited the triangulation (rolled back or not) and a hull taken before still answers",
            (o.sites # <<>> \/ o.changed) => o.hull_stale /\ o.gen_changed)
     /\ Chk("MODEL.remove_vertex is not the RemoveTxn run under this script",
            \E x \in {"ok", "fail", "keep"} :
              LET cs == IF x = "keep" THEN sc.choices ELSE WithLast(sc.choices, x)
                  p  == RRun(cfg, RInit, cs)
              IN  /\ p.pc = "done" /\ p.outcome = o.kind /\ p.has = o.has /\ (p.gen # 0) = o.changed
                  /\ p.sites = o.sites /\ (p.bumps > 0) = o.gen_changed)
TraceNext == TRTxn \/ IsEvent("Reset")
TraceSpec == TInit /\ [][TraceNext]_l
TraceAccepted ==
  LET d == TLCGet("stats").diameter IN
  IF d - 1 = Len(Rec) THEN TRUE
  ELSE /\ PrintT(<<"TRACE-REJECTED", "line", d, "ev", Rec[d].ev, "tag", Rec[d].tag>>)
       /\ FALSE
=============================================================================
