--------------------------- MODULE MC_LocateWalk ---------------------------
(* Small-constant instances of LocateWalk: Delaunay complexes in 2-D and 3-D (every lattice query
   in and around the hull, every hint), a non-Delaunay "pinwheel" on which the visibility walk
   cycles (why the cycle detection + scan fallback exist), and a non-convex complex on which the
   walk's Outside is wrong (why C04/C06's convexity matters to C10). *)
EXTENDS LocateWalk

GP6   == << <<0, 0>>, <<7, 1>>, <<3, 8>>, <<4, 3>>, <<9, 6>>, <<1, 5>> >>
GP6DT == << <<1, 2, 4>>, <<4, 6, 1>>, <<5, 2, 4>>, <<3, 4, 5>>, <<4, 6, 3>> >>
GP7   == << <<0, 0>>, <<7, 1>>, <<3, 8>>, <<4, 3>>, <<9, 6>>, <<1, 5>>, <<6, 4>> >>
GP7DT == << <<1, 2, 4>>, <<4, 6, 1>>, <<7, 2, 4>>, <<2, 5, 7>>, <<4, 6, 3>>, <<7, 3, 4>>, <<3, 5, 7>> >>
Q2D   == {<<x, y>> : x \in -1..10, y \in -1..9}

GP3D   == << <<0, 0, 0>>, <<5, 1, 0>>, <<1, 6, 1>>, <<2, 2, 7>>, <<4, 5, 5>>, <<3, 1, 2>> >>
GP3DDT == << <<1, 2, 3, 6>>, <<3, 4, 6, 1>>, <<5, 6, 2, 3>>, <<6, 2, 4, 5>>, <<3, 4, 5, 6>> >>
Q3D    == {<<x, y, z>> : x \in -1..6, y \in -1..7, z \in -1..8}

\* twisted pinwheel: outer triangle 1 2 3, inner triangle 4 5 6; slot orders chosen so that the first
\* outside facet of every ring triangle, for queries near (10,3), is the one towards the next ring triangle
PinPts   == << <<0, 0>>, <<24, 0>>, <<12, 20>>, <<6, 2>>, <<11, 2>>, <<11, 4>> >>
PinCells == << <<1, 2, 4>>, <<4, 2, 5>>, <<2, 3, 5>>, <<5, 3, 6>>, <<3, 1, 6>>, <<6, 1, 4>>, <<4, 5, 6>> >>
QPin     == {<<x, y>> : x \in -1..25, y \in -1..21}

\* the Delaunay complex of GP6 without the cell 1 2 4: a notch in the boundary
NotchCells == << <<4, 6, 1>>, <<5, 2, 4>>, <<3, 4, 5>>, <<4, 6, 3>> >>

DelaunayInput == IsDelaunayComplex
=============================================================================
