---------------------------- MODULE RemoveTxnOps ----------------------------
(***************************************************************************)
(* MECHANISM LAYER: the transaction structure of one vertex removal        *)
(* (DelaunayTriangulation::remove_vertex, delaunay_triangulation.rs:5169,  *)
(* wrapping Triangulation::remove_vertex, triangulation.rs:4824).          *)
(*                                                                         *)
(*   outer : snapshot of the Tds iff the repair policy is not Never;       *)
(*   fast  : inverse k=1 flip when the star of the vertex is a simplex.    *)
(*           The flip application is NOT atomic (open finding KF-C03-1):   *)
(*           a NeighborWiring error after the new cell was inserted is     *)
(*           returned at once, with no restore; any other late error falls *)
(*           through to the slow path, which then runs on the half-flipped *)
(*           Tds (it finds no cell around the vertex any more and just     *)
(*           deletes the vertex);                                          *)
(*   slow  : clone the Tds; fan-fill the hole, wire, delete the star,      *)
(*           local repairs, orientation, delete the vertex, validate       *)
(*           Level 3; ANY error restores the clone;                        *)
(*   post  : flip repair if the policy allows it and cells remain; a       *)
(*           failure restores the outer snapshot.                          *)
(* FLIP_ATOMIC = TRUE models a flip application that undoes itself on      *)
(* error (what AllOrNothing needs); FALSE is the code as it is.            *)
(***************************************************************************)
EXTENDS Integers, Sequences, FiniteSets, TLC

RInit == [pc |-> "outer", gen |-> 0, has |-> TRUE, fresh |-> 1, bumps |-> 0, snapO |-> -1, snapI |-> -1,
          outcome |-> "none", sites |-> <<>>]

\* cfg: repair \in {"Never", "On"}, cells (cells remain after the removal), atomic (FLIP_ATOMIC)
\* choices: at "fast": "k1no" | "k1ok" | "k1wire" | "k1late";  at the slow steps "fill", "cells", "vertex",
\*          "validate": "ok" | "fail";  at "repair": "ok" | "fail"
RStep(cfg, s, c) ==
  LET log(x) == Append(s.sites, x)
      dirty  == [s EXCEPT !.gen = s.fresh, !.fresh = @ + 1, !.bumps = @ + 1]   \* every edit bumps the generation; a restore (gen = snapshot) never rewinds it
  IN
  CASE s.pc = "outer" -> [s EXCEPT !.pc = "fast", !.snapO = IF cfg.repair # "Never" THEN s.gen ELSE -1]
    [] s.pc = "fast" ->
         (IF c = "k1no" THEN [s EXCEPT !.pc = "slow"]
          ELSE IF c = "k1ok" THEN [dirty EXCEPT !.has = FALSE, !.pc = "post",
                                               !.sites = s.sites \o <<"flip.after_insert_cells", "flip.after_wire", "flip.after_remove_cells">>]
          ELSE IF c = "k1wire"
          THEN (IF cfg.atomic THEN [s EXCEPT !.pc = "done", !.outcome = "Err", !.sites = log("flip.after_insert_cells"), !.bumps = @ + 1]   \* undone, yet it was an edit
                ELSE [dirty EXCEPT !.pc = "done", !.outcome = "Err", !.sites = log("flip.after_insert_cells")])
          ELSE \* "k1late": the flip fails after deleting the star; the slow path deletes the bare vertex
               LET sl == s.sites \o <<"flip.after_insert_cells", "flip.after_wire", "flip.after_remove_cells">> IN
               IF cfg.atomic THEN [s EXCEPT !.pc = "slow", !.sites = sl, !.bumps = @ + 1]
               ELSE [dirty EXCEPT !.has = FALSE, !.pc = "post", !.sites = sl])
    [] s.pc = "slow" -> [s EXCEPT !.pc = "fill", !.snapI = s.gen]
    [] s.pc \in {"fill", "cells", "vertex", "validate"} ->
         LET site == CASE s.pc = "fill" -> "tri.remove.after_fill" [] s.pc = "cells" -> "tri.remove.after_remove_cells"
                       [] s.pc = "vertex" -> "tri.remove.after_remove_vertex" [] OTHER -> "-"
             nxt  == CASE s.pc = "fill" -> "cells" [] s.pc = "cells" -> "vertex" [] s.pc = "vertex" -> "validate" [] OTHER -> "post"
             t    == [dirty EXCEPT !.sites = IF site = "-" THEN s.sites ELSE log(site),
                                   !.has = IF s.pc = "vertex" THEN FALSE ELSE s.has]
         IN  IF c = "ok" THEN [t EXCEPT !.pc = nxt]
             ELSE [t EXCEPT !.gen = s.snapI, !.has = TRUE, !.pc = "done", !.outcome = "Err"]
    [] s.pc = "post" ->
         IF cfg.repair # "Never" /\ cfg.cells THEN [s EXCEPT !.pc = "repair"] ELSE [s EXCEPT !.pc = "done", !.outcome = "Ok"]
    [] s.pc = "repair" ->
         IF c = "ok" THEN [dirty EXCEPT !.pc = "done", !.outcome = "Ok"]
         ELSE [s EXCEPT !.gen = s.snapO, !.has = TRUE, !.pc = "done", !.outcome = "Err"]
    [] OTHER -> s

RChoices(cfg, s) ==
  CASE s.pc = "fast" -> {"k1no", "k1ok", "k1wire", "k1late"}
    [] s.pc \in {"fill", "cells", "vertex", "validate", "repair"} -> {"ok", "fail"}
    [] OTHER -> {"-"}

RECURSIVE RRun(_, _, _)
RRun(cfg, s, cs) ==
  IF s.pc = "done" THEN s
  ELSE IF RChoices(cfg, s) = {"-"} THEN RRun(cfg, RStep(cfg, s, "-"), cs)
       ELSE IF cs = <<>> THEN s ELSE RRun(cfg, RStep(cfg, s, Head(cs)), Tail(cs))
=============================================================================
