--------------------------- MODULE MC_FlipRepair ---------------------------
(* Small-constant instances of FlipRepair: a general-position point set (the flip graph is
   explored completely from the Delaunay triangulation) and a cocircular grid set. *)
EXTENDS FlipRepair

\* 6 points in general position in the plane (no 3 collinear, no 4 cocircular)
GP6 == << <<0, 0>>, <<7, 1>>, <<3, 8>>, <<4, 3>>, <<9, 6>>, <<1, 5>> >>
\* 7 points, general position
GP7 == << <<0, 0>>, <<7, 1>>, <<3, 8>>, <<4, 3>>, <<9, 6>>, <<1, 5>>, <<6, 4>> >>
\* 2x3 grid: cocircular quadruples, Delaunay triangulation not unique
Grid6 == << <<0, 0>>, <<1, 0>>, <<2, 0>>, <<0, 1>>, <<1, 1>>, <<2, 1>> >>
Grid6Start == {{1, 2, 4}, {2, 4, 5}, {2, 3, 5}, {3, 5, 6}}
\* 3-D: 6 points in general position
GP3D == << <<0, 0, 0>>, <<5, 1, 0>>, <<1, 6, 1>>, <<2, 2, 7>>, <<4, 5, 5>>, <<3, 1, 2>> >>
DTStart == DT
\* view without the flip counter: cycles of the repair phase become visible to the liveness check
NoCounterView == <<K, phase, nscr>>
=============================================================================
