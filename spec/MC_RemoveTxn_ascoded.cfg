SPECIFICATION Spec
CONSTANTS
  FLIP_ATOMIC = FALSE
  EMIT = FALSE
INVARIANTS AllOrNothing Committed StaleAfterTouch FoldAgrees
PROPERTY Terminates
CHECK_DEADLOCK FALSE
