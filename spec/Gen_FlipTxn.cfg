SPECIFICATION Spec
CONSTANTS
  ATOMIC = FALSE
  CTXCLEAN = TRUE
  EMIT = TRUE
INVARIANTS Emit
CHECK_DEADLOCK FALSE
