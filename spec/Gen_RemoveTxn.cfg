SPECIFICATION Spec
CONSTANTS
  FLIP_ATOMIC = FALSE
  EMIT = TRUE
INVARIANTS Emit
CHECK_DEADLOCK FALSE
