SPECIFICATION Spec
CONSTANTS
  D = 2
  Pts <- PinPts
  Cells <- PinCells
  Queries <- QPin
  MaxSteps = 3
INVARIANTS Sound OutsideRight Complete InteriorExact RunAgrees
PROPERTY Terminates
CHECK_DEADLOCK FALSE
