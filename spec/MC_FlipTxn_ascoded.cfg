SPECIFICATION Spec
CONSTANTS
  ATOMIC = FALSE
  CTXCLEAN = TRUE
  EMIT = FALSE
INVARIANTS AllOrNothing RefusedIsNoOp Committed StaleWhenChanged NoOverlapNoHole FoldAgrees
PROPERTY Terminates
CHECK_DEADLOCK FALSE
