SPECIFICATION Spec
CONSTANTS
  GEOMETRIC = TRUE
  Pts <- Grid6
  D = 2
  MaxScramble = 20
  Start <- Grid6Start
INVARIANTS EveryStateIsATriangulation MovesAreInvertible RepairFixpointIsDelaunay FlipBound
PROPERTY RepairTerminates
CHECK_DEADLOCK FALSE
