------------------------------- MODULE Caches -------------------------------
(***************************************************************************)
(* MECHANISM LAYER: which public call touches which cache.                 *)
(*                                                                         *)
(* Written from the code, one action per public call, with the outcome of  *)
(* the call as an action parameter (TLC explores every outcome the code    *)
(* can produce; a recorded trace fixes it).  What is modelled:             *)
(*                                                                         *)
(*   cnt[p]      how many vertices sit at interior lattice position p      *)
(*   isome/ikeys the spatial duplicate index of DelaunayTriangulation      *)
(*               (Option<HashGridIndex>); ikeys = positions of the LIVE    *)
(*               vertices whose keys are in it (stale keys resolve to      *)
(*               nothing and are invisible)                                *)
(*   lin, gen    the modification counter: an Arc<AtomicU64> SHARED by     *)
(*               Clone (same lineage), fresh after deserialisation and     *)
(*               after a heuristic rebuild (`*self = candidate`)           *)
(*   ver         a stamp that changes whenever the cell complex changes    *)
(*   hull        one ConvexHull snapshot: the generation it was created at *)
(*                                                                         *)
(* Sources: delaunay_triangulation.rs (insert / insert_with_statistics:    *)
(* ensure_spatial_index_seeded, snapshot incl. index, rollback;            *)
(* as_triangulation_mut clears index and hint; remove_vertex leaves the    *)
(* index alone; from_tds*: index None), triangulation.rs                   *)
(* (duplicate_coordinates_error: index answers INSTEAD of a scan when      *)
(* present and usable), triangulation/flips.rs (Edit API), convex_hull.rs  *)
(* (staleness = creation generation /= tds.generation()).                  *)
(*                                                                         *)
(* EDIT_INVALIDATES selects how the Edit-API wrapper treats the caches:    *)
(*   FALSE  as in the pinned revision: BistellarFlips for                  *)
(*          DelaunayTriangulation goes straight to self.tri, touching      *)
(*          neither index nor hint                                         *)
(*   TRUE   it goes through as_triangulation_mut() (index := None)         *)
(***************************************************************************)
EXTENDS Integers, FiniteSets, Sequences, TLC

CONSTANTS Pos,              \* interior lattice positions the driver uses
          Objs,             \* object slots
          MaxGen,           \* bound on generation numbers explored by TLC
          EDIT_INVALIDATES  \* see above

VARIABLES obj,      \* obj[o] = [live, cnt, isome, ikeys, lin, ver]
          gen,      \* gen[l]  = generation counter of lineage l
          hull,     \* [some, src, lin, gen, ver]
          nextLin, nextVer,
          last      \* [op, o, p, res] of the last step (observation, hidden by VIEW)

vars == <<obj, gen, hull, nextLin, nextVer, last>>

Lins == 1..8
Dead == [live |-> FALSE, cnt |-> [p \in Pos |-> 0], isome |-> FALSE, ikeys |-> {},
         lin |-> 1, ver |-> 0]
NoHull == [some |-> FALSE, src |-> 0, lin |-> 0, gen |-> 0, ver |-> 0]

Init ==
  /\ obj = [o \in Objs |-> Dead]
  /\ gen = [l \in Lins |-> 0]
  /\ hull = NoHull
  /\ nextLin = 1 /\ nextVer = 1
  /\ last = [op |-> "Init", o |-> 0, p |-> 0, o2 |-> 0, res |-> ""]

Present(o) == {p \in Pos : obj[o].cnt[p] > 0}
Live(o)    == obj[o].live

\* generation bump of lineage l by d (>= 1 for a successful mutation)
Bump(l, d) == gen' = [gen EXCEPT ![l] = @ + d]

Step2(op, o, p, o2, res) == last' = [op |-> op, o |-> o, p |-> p, o2 |-> o2, res |-> res]
Step(op, o, p, res) == Step2(op, o, p, 0, res)

---------------------------------------------------------------------------
\* construction of the base triangulation (the hull corners only)
Construct(o, g0) ==
  /\ ~Live(o) /\ nextLin \in Lins
  /\ obj' = [obj EXCEPT ![o] = [live |-> TRUE, cnt |-> [p \in Pos |-> 0], isome |-> TRUE,
                                ikeys |-> {}, lin |-> nextLin, ver |-> nextVer]]
  /\ gen' = [gen EXCEPT ![nextLin] = g0]
  /\ nextLin' = nextLin + 1 /\ nextVer' = nextVer + 1
  /\ UNCHANGED hull
  /\ Step("Construct", o, 0, "Ok")

\* insert / insert_with_statistics at position p
\*   ensure_spatial_index_seeded: index := all present vertices if absent
\*   duplicate query: the index answers when present (no scan)
Insert(o, p, res, d) ==
  LET S  == obj[o]
      k0 == IF S.isome THEN S.ikeys ELSE Present(o)
      dup == p \in k0
  IN
  /\ Live(o)
  /\ \/ /\ dup /\ res = "Dup" /\ d = 0
        /\ obj' = [obj EXCEPT ![o].isome = TRUE, ![o].ikeys = k0]
        /\ UNCHANGED <<gen, nextVer>>
     \/ /\ ~dup /\ res = "Inserted" /\ d >= 1
        /\ obj' = [obj EXCEPT ![o].isome = TRUE, ![o].ikeys = k0 \cup {p},
                              ![o].cnt[p] = @ + 1, ![o].ver = nextVer]
        /\ Bump(S.lin, d) /\ nextVer' = nextVer + 1
     \/ /\ ~dup /\ res = "Err" /\ d >= 0      \* rolled back: index restored from the snapshot
        /\ obj' = [obj EXCEPT ![o].isome = TRUE, ![o].ikeys = k0]
        /\ Bump(S.lin, d) /\ UNCHANGED nextVer
  /\ UNCHANGED <<hull, nextLin>>
  /\ Step("Insert", o, p, res)

\* DelaunayTriangulation::remove_vertex: the index is not touched (the stale key no
\* longer resolves)
Remove(o, p, res, d) ==
  LET S == obj[o] IN
  /\ Live(o)
  /\ \/ /\ S.cnt[p] > 0 /\ res = "Ok" /\ d >= 1
        /\ obj' = [obj EXCEPT ![o].cnt[p] = @ - 1, ![o].ver = nextVer,
                              ![o].ikeys = IF S.cnt[p] = 1 THEN @ \ {p} ELSE @]
        /\ Bump(S.lin, d) /\ nextVer' = nextVer + 1
     \/ /\ S.cnt[p] > 0 /\ res = "Err" /\ d >= 0
        /\ Bump(S.lin, d) /\ UNCHANGED <<obj, nextVer>>
     \/ /\ S.cnt[p] = 0 /\ res = "Absent" /\ d = 0
        /\ UNCHANGED <<obj, gen, nextVer>>
  /\ UNCHANGED <<hull, nextLin>>
  /\ Step("Remove", o, p, res)

\* what the Edit-API wrapper does to the caches before delegating
EditCaches(S) == IF EDIT_INVALIDATES THEN [S EXCEPT !.isome = FALSE, !.ikeys = {}] ELSE S

FlipK1Insert(o, p, res, d) ==
  LET S == EditCaches(obj[o]) IN
  /\ Live(o)
  /\ \/ /\ obj[o].cnt[p] = 0 /\ res = "Ok" /\ d >= 1
        /\ obj' = [obj EXCEPT ![o] = [S EXCEPT !.cnt[p] = 1, !.ver = nextVer]]
        /\ Bump(S.lin, d) /\ nextVer' = nextVer + 1
     \/ /\ obj[o].cnt[p] = 0 /\ res = "Err" /\ d = 0
        /\ obj' = [obj EXCEPT ![o] = S] /\ UNCHANGED <<gen, nextVer>>
     \/ /\ obj[o].cnt[p] > 0 /\ res = "Present" /\ d = 0    \* the driver does not call it
        /\ UNCHANGED <<obj, gen, nextVer>>
  /\ UNCHANGED <<hull, nextLin>>
  /\ Step("FlipK1Insert", o, p, res)

FlipK1Remove(o, p, res, d) ==
  LET S == EditCaches(obj[o]) IN
  /\ Live(o)
  /\ \/ /\ obj[o].cnt[p] > 0 /\ res = "Ok" /\ d >= 1
        /\ obj' = [obj EXCEPT ![o] = [S EXCEPT !.cnt[p] = @ - 1, !.ver = nextVer,
                                               !.ikeys = IF obj[o].cnt[p] = 1 THEN @ \ {p} ELSE @]]
        /\ Bump(S.lin, d) /\ nextVer' = nextVer + 1
     \/ /\ obj[o].cnt[p] > 0 /\ res = "Err" /\ d = 0
        /\ obj' = [obj EXCEPT ![o] = S] /\ UNCHANGED <<gen, nextVer>>
     \/ /\ obj[o].cnt[p] = 0 /\ res = "Absent" /\ d = 0
        /\ UNCHANGED <<obj, gen, nextVer>>
  /\ UNCHANGED <<hull, nextLin>>
  /\ Step("FlipK1Remove", o, p, res)

\* an Edit-API k >= 2 flip: same vertices, different cells
FlipK2(o, res, d) ==
  LET S == EditCaches(obj[o]) IN
  /\ Live(o)
  /\ \/ /\ res = "Ok" /\ d >= 1
        /\ obj' = [obj EXCEPT ![o] = [S EXCEPT !.ver = nextVer]]
        /\ Bump(S.lin, d) /\ nextVer' = nextVer + 1
     \/ /\ res = "Err" /\ d = 0
        /\ obj' = [obj EXCEPT ![o] = S] /\ UNCHANGED <<gen, nextVer>>
  /\ UNCHANGED <<hull, nextLin>>
  /\ Step("FlipK2", o, 0, res)

\* repair_delaunay_with_flips (adv = FALSE) / _advanced (adv = TRUE)
\*   "Noop": nothing to flip, nothing changes; "Rebuilt": heuristic rebuild replaced *self
Repair(o, adv, res, d, g0) ==
  LET S == obj[o] IN
  /\ Live(o)
  /\ \/ /\ res = "Ok" /\ d >= 1
        /\ obj' = [obj EXCEPT ![o].ver = nextVer]
        /\ Bump(S.lin, d) /\ nextVer' = nextVer + 1 /\ UNCHANGED nextLin
     \/ /\ res = "Noop" /\ d = 0
        /\ UNCHANGED <<obj, gen, nextVer, nextLin>>
     \/ /\ res = "Err" /\ d >= 0
        /\ Bump(S.lin, d) /\ UNCHANGED <<obj, nextVer, nextLin>>
     \/ /\ adv /\ res = "Rebuilt" /\ d = 0 /\ nextLin \in Lins
        /\ obj' = [obj EXCEPT ![o].ver = nextVer, ![o].lin = nextLin,
                              ![o].isome = TRUE, ![o].ikeys = Present(o)]
        /\ gen' = [gen EXCEPT ![nextLin] = g0]
        /\ nextLin' = nextLin + 1 /\ nextVer' = nextVer + 1
  /\ UNCHANGED hull
  /\ Step(IF adv THEN "RepairAdv" ELSE "Repair", o, 0, res)

AsTriMut(o) ==
  /\ Live(o)
  /\ obj' = [obj EXCEPT ![o].isome = FALSE, ![o].ikeys = {}]
  /\ UNCHANGED <<gen, hull, nextLin, nextVer>>
  /\ Step("AsTriMut", o, 0, "Ok")

\* Clone copies index (and hint, policies) and SHARES the generation counter
Clone(o, o2) ==
  /\ Live(o) /\ o2 # o
  /\ obj' = [obj EXCEPT ![o2] = obj[o]]
  \* overwriting a slot ends the life of the object in it: a hull taken from it is dropped
  /\ hull' = IF hull.some /\ hull.src = o2 THEN NoHull ELSE hull
  /\ UNCHANGED <<gen, nextLin, nextVer>>
  /\ Step2("Clone", o, 0, o2, "Ok")

\* serialise the Tds, deserialise, from_tds: no index, a NEW counter starting at g0
SerDe(o, o2, g0) ==
  /\ Live(o) /\ o2 # o /\ nextLin \in Lins
  /\ obj' = [obj EXCEPT ![o2] = [obj[o] EXCEPT !.isome = FALSE, !.ikeys = {}, !.lin = nextLin]]
  /\ gen' = [gen EXCEPT ![nextLin] = g0]
  /\ nextLin' = nextLin + 1
  /\ hull' = IF hull.some /\ hull.src = o2 THEN NoHull ELSE hull
  /\ UNCHANGED nextVer
  /\ Step2("SerDe", o, 0, o2, "Ok")

HullCreate(o) ==
  /\ Live(o)
  /\ hull' = [some |-> TRUE, src |-> o, lin |-> obj[o].lin, gen |-> gen[obj[o].lin], ver |-> obj[o].ver]
  /\ UNCHANGED <<obj, gen, nextLin, nextVer>>
  /\ Step("HullCreate", o, 0, "Ok")

\* every query that takes the triangulation compares raw generation numbers
HullVerdict(o) == IF hull.gen = gen[obj[o].lin] THEN "Fresh" ELSE "Stale"
HullQuery(o, res) ==
  /\ Live(o)
  \* with another object than the one the hull was taken from the handles may dangle: the
  \* queries can then fail for other reasons although the generation matches ("Mixed")
  /\ IF hull.some THEN (res = HullVerdict(o) \/ (o # hull.src /\ HullVerdict(o) = "Fresh" /\ res = "Mixed"))
     ELSE res = "NoHull"
  /\ UNCHANGED <<obj, gen, hull, nextLin, nextVer>>
  /\ Step("HullQuery", o, 0, res)

---------------------------------------------------------------------------
Results == {"Ok", "Err", "Inserted", "Dup", "Absent", "Present", "Noop", "Rebuilt", "Fresh", "Stale", "Mixed", "NoHull"}

Next ==
  \E o \in Objs :
    \/ \E g0 \in 0..2 : Construct(o, g0)
    \/ \E p \in Pos, res \in Results, d \in 0..2 :
          Insert(o, p, res, d) \/ Remove(o, p, res, d)
          \/ FlipK1Insert(o, p, res, d) \/ FlipK1Remove(o, p, res, d)
    \/ \E res \in Results, d \in 0..2 : FlipK2(o, res, d)
    \/ \E adv \in BOOLEAN, res \in Results, d \in 0..2, g0 \in 0..2 : Repair(o, adv, res, d, g0)
    \/ AsTriMut(o)
    \/ \E o2 \in Objs : Clone(o, o2) \/ \E g0 \in 0..2 : SerDe(o, o2, g0)
    \/ HullCreate(o)
    \/ \E res \in Results : HullQuery(o, res)

Spec == Init /\ [][Next]_vars

---------------------------------------------------------------------------
\* PROPERTIES

TypeOK ==
  /\ \A o \in Objs : obj[o].ikeys \subseteq Pos /\ obj[o].lin \in Lins
  /\ \A l \in Lins : gen[l] \in Nat

\* C09: no history lets two vertices sit at one position
NoDuplicateAccepted == \A o \in Objs : \A p \in Pos : obj[o].cnt[p] <= 1

\* what the duplicate query needs: an index that is present knows every present vertex
IndexComplete == \A o \in Objs : Live(o) /\ obj[o].isome => Present(o) \subseteq obj[o].ikeys
\* the index never claims an absent vertex (a point is never refused as a duplicate of a
\* vertex that is no longer present)
IndexSound == \A o \in Objs : Live(o) /\ obj[o].isome => obj[o].ikeys \subseteq Present(o)

\* C11: a hull that is not reported stale for the object it was taken from describes the
\* current complex of that object (mutating a clone also makes it stale: conservative)
HullFresh ==
  \A o \in Objs :
    Live(o) /\ hull.some /\ o = hull.src /\ obj[o].lin = hull.lin /\ hull.gen = gen[obj[o].lin]
      => obj[o].ver = hull.ver
\* design notes (DESIGN.md 7-f), NOT claimed: the raw comparison ignores the lineage, so a hull
\* can look fresh (i) for the same object after a heuristic rebuild installed a new counter,
\* (ii) for another object (clone with older content, deserialised copy)
HullFreshAfterRebuild ==
  \A o \in Objs :
    Live(o) /\ hull.some /\ o = hull.src /\ hull.gen = gen[obj[o].lin] => obj[o].ver = hull.ver
HullFreshAcrossObjects ==
  \A o \in Objs :
    Live(o) /\ hull.some /\ hull.gen = gen[obj[o].lin] => obj[o].ver = hull.ver

\* refused and failed calls leave the abstract state unchanged (C03 at this level of abstraction)
RefusalsChangeNothing ==
  [][last'.res \in {"Dup", "Absent", "Present", "Noop", "NoHull", "Fresh", "Stale", "Mixed"} =>
       \A o \in Objs : obj'[o].cnt = obj[o].cnt /\ obj'[o].ver = obj[o].ver]_vars
=============================================================================
