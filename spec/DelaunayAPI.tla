---------------------------- MODULE DelaunayAPI ----------------------------
(***************************************************************************)
(* CONTRACT LAYER of the specification of acgetchell/delaunay.             *)
(*                                                                         *)
(* The abstract state of one triangulation object is a record S            *)
(*   S.live   : BOOLEAN                                                    *)
(*   S.D      : dimension                                                  *)
(*   S.verts  : sequence of [id, u, m, h, data, pert, dok, inc]            *)
(*                id = u  small integer standing for the vertex UUID       *)
(*                m     home lattice coordinates (tuple of D integers)     *)
(*                h     hash of the stored coordinate BITS                 *)
(*                pert  stored coordinates differ from the lattice home    *)
(*                dok   ... by no more than the documented perturbation    *)
(*                inc   id of the incident cell, 0 if none                 *)
(*   S.cells  : sequence of [id, vs, nb, data]                             *)
(*                id    small integer standing for the cell UUID           *)
(*                vs    ORDERED vertex slots (tuple of D+1 vertex ids)     *)
(*                nb    neighbour slots (cell id, 0 = none); slot i is     *)
(*                      opposite vertex slot i                             *)
(*   S.cfg    : [g, vp, rp, cp, topo]  guarantee and policies              *)
(*   S.gen    : modification generation (hull staleness counter)           *)
(*   S.nv, S.nc : the counts the API reports                               *)
(*                                                                         *)
(* This module defines, as pure predicates over (pre-state, arguments,     *)
(* result, post-state), what every public call promises.  The transition   *)
(* system that uses them is in Trace_API (recorded behaviours) and in the  *)
(* mechanism modules (Caches, FlipRepair, ...).  All oracles are           *)
(* recomputed from the raw cells and integer coordinates.                  *)
(***************************************************************************)
EXTENDS Tolerance, Topology, TLC, LocateWalkOps

Range(s) == {s[i] : i \in DOMAIN s}

\* A failed conjunct is named on stdout so that a rejected trace explains itself.
\* C19's own check validates the histories of ALL families for "no panic, no timeout, work within
\* budget" only: in that mode (TLC register 9, set by Trace_API from the environment) a failed
\* conjunct that belongs to another property does not stop the validation of the history.
C19Names == {"C19.panic", "C19.timeout", "C19.panic in locate", "C19.walk steps within budget",
             "C19.panic in hull query", "C19.panic in queries", "C19.repair exceeded its flip budget",
             "C19.more than one perturbation retry", "C19.panic in a validator",
             "C19.non-finite coordinate accepted", "C19.non-finite coordinate entered a triangulation",
             "C19.refused non-finite call changed the triangulation"}
Chk(name, cond) ==
  IF cond THEN TRUE
  ELSE IF TLCGet(9) /\ name \notin C19Names THEN TRUE
  ELSE PrintT(<<"CONTRACT-FAIL", name>>) /\ FALSE

---------------------------------------------------------------------------
\* Projections of a state record

NoState == [live |-> FALSE]

VRecs(S)  == Range(S.verts)
CRecs(S)  == Range(S.cells)
VIds(S)   == {r.id : r \in VRecs(S)}
CIds(S)   == {c.id : c \in CRecs(S)}
VRec(S, v) == CHOOSE r \in VRecs(S) : r.id = v
CRec(S, c) == CHOOSE r \in CRecs(S) : r.id = c
Pos(S)    == [v \in VIds(S) |-> VRec(S, v).m]
PertSet(S) == {r.id : r \in {x \in VRecs(S) : x.pert}}
CellSet(c) == Range(c.vs)
K(S)      == {CellSet(c) : c \in CRecs(S)}
NN(S)     == S.D + 1
Pts(P, vs) == [i \in DOMAIN vs |-> P[vs[i]]]

\* what C03 calls "every observable aspect": everything except the generation
\* counter and the incident-cell pointers (an internal acceleration field)
ObsVert(r) == [id |-> r.id, m |-> r.m, h |-> r.h, data |-> r.data]
ObsVerts(S) == {ObsVert(r) : r \in VRecs(S)}
ObsCells(S) == {[id |-> c.id, vs |-> c.vs, nb |-> c.nb, data |-> c.data] : c \in CRecs(S)}
Obs(S) == [verts |-> ObsVerts(S), cells |-> ObsCells(S), cfg |-> S.cfg,
           nv |-> S.nv, nc |-> S.nc]

\* order-insensitive view used where cell UUIDs / slot order may legitimately differ
CellsByVerts(S) == K(S)

---------------------------------------------------------------------------
\* LEVEL 1 (elements) recomputed from the raw representation

L1a(S) == Cardinality(VIds(S)) = Len(S.verts)
L1b(S) == \A r \in VRecs(S) : Len(r.m) = S.D
L1c(S) == \A c \in CRecs(S) : Len(c.vs) = S.D + 1
L1d(S) == \A c \in CRecs(S) : Cardinality(CellSet(c)) = Len(c.vs)
L1e(S) == \A c \in CRecs(S) : Len(c.nb) = S.D + 1
L1f(S) == S.nv = Len(S.verts) /\ S.nc = Len(S.cells)
Level1Q(S) == L1a(S) /\ L1b(S) /\ L1c(S) /\ L1d(S) /\ L1e(S) /\ L1f(S)
Level1(S) ==
  /\ Chk("L1.vertex ids distinct", L1a(S))
  /\ Chk("L1.vertex dimension", L1b(S))
  /\ Chk("L1.cell arity", L1c(S))
  /\ Chk("L1.cell vertices distinct", L1d(S))
  /\ Chk("L1.neighbour buffer length", L1e(S))
  /\ Chk("L1.counts", L1f(S))

\* parity (0 even / 1 odd) of the permutation taking sequence s to sequence t
\* (same elements)
PosIn(s, x) == CHOOSE i \in DOMAIN s : s[i] = x
PermParity(s, t) ==
  Cardinality({p \in (DOMAIN t) \X (DOMAIN t) :
                 p[1] < p[2] /\ PosIn(s, t[p[1]]) > PosIn(s, t[p[2]])}) % 2

\* LEVEL 2 (structure): maps, live keys, no duplicate cell, facet degree <= 2,
\* neighbour slots fully determined by incidence (slot i opposite vertex i),
\* incident cells, coherent combinatorial orientation
FacetOpp(c, i) == CellSet(c) \ {c.vs[i]}
SeqWithout(s, i) == [k \in 1..(Len(s) - 1) |-> IF k < i THEN s[k] ELSE s[k + 1]]

NeighbourSlotsOK(S) ==
  \A c \in CRecs(S) : \A i \in DOMAIN c.vs :
    LET f == FacetOpp(c, i)
        others == {d \in CRecs(S) : d.id # c.id /\ f \subseteq CellSet(d)}
    IN  IF others = {} THEN c.nb[i] = 0
        ELSE \E d \in others : c.nb[i] = d.id

CoherentOrientation(S) ==
  \A c \in CRecs(S) : \A i \in DOMAIN c.vs :
    c.nb[i] # 0 /\ c.nb[i] \in CIds(S) =>
      LET d == CRec(S, c.nb[i])
          f == FacetOpp(c, i)
      IN  f \subseteq CellSet(d) =>
            LET j  == CHOOSE k \in DOMAIN d.vs : d.vs[k] \notin f
                fc == SeqWithout(c.vs, i)
                fd == SeqWithout(d.vs, j)
            IN  \* induced orientations on the shared facet are opposite
                (PermParity(fc, fd) + i + j) % 2 = 1

L2a(S) == Cardinality(CIds(S)) = Len(S.cells)
L2b(S) == \A c \in CRecs(S) : CellSet(c) \subseteq VIds(S)
L2c(S) == Cardinality(K(S)) = Len(S.cells)
L2d(S) == \A f \in AllFacets(K(S)) : FacetDeg(K(S), f) <= 2
L2e(S) == NeighbourSlotsOK(S)
L2f(S) == \A r \in VRecs(S) : r.inc = 0 \/ (r.inc \in CIds(S) /\ r.id \in CellSet(CRec(S, r.inc)))
L2g(S) == CoherentOrientation(S)
Level2Q(S) == L2a(S) /\ L2b(S) /\ L2c(S) /\ L2d(S) /\ L2e(S) /\ L2f(S) /\ L2g(S)
Level2(S) ==
  /\ Chk("L2.cell ids distinct", L2a(S))
  /\ Chk("L2.cell vertices live", L2b(S))
  /\ Chk("L2.no duplicate cells", L2c(S))
  /\ Chk("L2.facet degree <= 2", L2d(S))
  /\ Chk("L2.neighbour slots", L2e(S))
  /\ Chk("L2.incident cells", L2f(S))
  /\ Chk("L2.coherent orientation", L2g(S))

---------------------------------------------------------------------------
\* LEVEL 3 (manifold topology at the configured strength) + geometric orientation

\* orientation sign of a stored cell, at the home coordinates
CellOrient(S, c) == Orient(Pts(Pos(S), c.vs))
HasPert(S, vs)   == \E i \in DOMAIN vs : vs[i] \in PertSet(S)
\* the lattice unit of the history is 2^s (s = 0 unless the driver says otherwise).  C01: "judged in exact
\* arithmetic OUTSIDE the predicates' documented tolerance band": at s /= 0 a determinant that is non-zero on the
\* lattice may be inside the band (Tolerance.tla) and then decides nothing.
ScaleOf(S)       == IF "s" \in DOMAIN S THEN S.s ELSE 0
OrientDecisive(S, ps) == ScaleOf(S) = 0 \/ DecOrient(OrientDet(ps), ScaleOf(S), S.D, ps)
SphereDecisive(S, ps, q) ==
  ScaleOf(S) = 0 \/ (DecOrient(OrientDet(ps), ScaleOf(S), S.D, ps) /\ DecSphere(LiftedDet(ps, q), ScaleOf(S), S.D, Append(ps, q)))
\* vertices whose stored coordinates are NOT within the documented perturbation of a lattice home that the
\* exact arithmetic here can represent (|m| >= 1e9 units is logged as 0): nothing geometric is decided about them
UnkSet(S)        == {r.id : r \in {x \in VRecs(S) : x.pert /\ ~x.dok}}
UnkIn(S, T)      == T \cap UnkSet(S) # {}
HasUnk(S, vs)    == \E i \in DOMAIN vs : vs[i] \in UnkSet(S)

\* Every cell non-degenerate and all cells of one geometric orientation.  A cell
\* containing a perturbed vertex whose home determinant is zero is undecidable
\* (inside the tolerance band) and is skipped.
GeometricOrientationOK(S) ==
  LET dec == {c \in CRecs(S) : ~HasUnk(S, c.vs) /\ ~(HasPert(S, c.vs) /\ CellOrient(S, c) = 0)
                                /\ (CellOrient(S, c) = 0 \/ OrientDecisive(S, Pts(Pos(S), c.vs)))}
  IN  /\ \A c \in dec : CellOrient(S, c) # 0
      /\ \A c, d \in dec : CellOrient(S, c) = CellOrient(S, d)

Level3(S, g) ==
  LET KK == K(S) n == NN(S) IN
  /\ Chk("L3.at least one cell", KK # {})
  /\ Chk("L3.facet degree in {1,2}", FacetDegOK(KK))
  /\ Chk("L3.connected", DualConnected(KK))
  /\ Chk("L3.boundary non-empty and closed", Boundary(KK) # {} /\ ClosedBoundary(KK))
  /\ Chk("L3.no isolated vertex", Verts(KK) = VIds(S))
  /\ Chk("L3.Euler characteristic 1", Euler(KK, n) = 1)
  /\ Chk("L3.ridge links", g \in {"PLManifold", "PLManifoldStrict"} => RidgeLinksOK(KK, n))
  /\ Chk("L3.vertex links", g = "PLManifoldStrict" => VertexLinksOK(KK, n))
  /\ Chk("L3.geometric orientation", GeometricOrientationOK(S))

Bootstrap(S) == Len(S.verts) < S.D + 1 /\ Len(S.cells) = 0

\* "the validity stack": Levels 1-3 recomputed; g = strength to demand
ValidStack(S, g) == Level1(S) /\ Level2(S) /\ Level3(S, g)
StackOrBootstrap(S, g) == Level1(S) /\ (IF Bootstrap(S) THEN TRUE ELSE Level2(S) /\ Level3(S, g))

\* the strength a *finished construction* certifies (validate_at_completion adds
\* vertex links for PLManifold)
CompletionStrength(g) == IF g = "Pseudomanifold" THEN g ELSE "PLManifoldStrict"

---------------------------------------------------------------------------
\* Embedding in R^D with convex boundary (C01: "simplicial ball with convex boundary")

ApexOf(cs, f) == CHOOSE v \in cs : v \notin f
\* an arbitrary but fixed ordering of a facet's vertices
RECURSIVE SetToSeq(_)
SetToSeq(T) == IF T = {} THEN <<>>
               ELSE LET x == CHOOSE y \in T : \A z \in T : y <= z
                    IN  <<x>> \o SetToSeq(T \ {x})

EmbDec(S, T) == ~(\E v \in T : v \in PertSet(S))
\* side of v relative to the facet f; 0 when the determinant is inside the tolerance band at this scale
EmbSide(S, f, v) ==
  LET ps == Append(Pts(Pos(S), SetToSeq(f)), Pos(S)[v]) IN
  IF OrientDecisive(S, ps) THEN Orient(ps) ELSE 0

\* adjacent cells lie strictly on opposite sides of their common facet
EmbOpposite(S) ==
  LET KK == K(S) IN
  \A f \in AllFacets(KK) :
    LET cs == CellsWith(KK, f) IN
    Cardinality(cs) = 2 =>
      LET a == CHOOSE c \in cs : TRUE
          b == CHOOSE c \in cs : c # a
          sa == EmbSide(S, f, ApexOf(a, f))
          sb == EmbSide(S, f, ApexOf(b, f))
      IN  UnkIn(S, a \cup b) \/ (sa * sb < 0) \/ ((~EmbDec(S, a \cup b) \/ ScaleOf(S) # 0) /\ sa * sb = 0)

\* every boundary facet lies on a supporting hyperplane of the whole vertex set
EmbConvex(S) ==
  LET KK == K(S) IN
  \A f \in Boundary(KK) :
    LET c  == CHOOSE c \in CellsWith(KK, f) : TRUE
        sa == EmbSide(S, f, ApexOf(c, f))
    IN  \A v \in VIds(S) : UnkIn(S, c \cup {v}) \/ EmbSide(S, f, v) * sa >= 0 \/ (~EmbDec(S, c \cup {v}) /\ sa = 0)

\* degree one: the centroid of every cell lies in the closed simplex of no other
\* cell (coordinates scaled by D+1 so the centroid is integral)
EmbNoOverlap(S) ==
  LET KK == K(S) P == Pos(S) IN
  \A c \in KK :
    LET n == Cardinality(c)
        ctr == VSum(Pts(P, SetToSeq(c)))
    IN  \A d \in KK \ {c} :
          EmbDec(S, d \cup c) =>
            ~InClosedSimplex([i \in 1..n |-> Scale(P[SetToSeq(d)[i]], n)], ctr)

\* silent version (used in antecedents and diagnostics)
EmbeddedQ(S) == EmbOpposite(S) /\ EmbConvex(S) /\ EmbNoOverlap(S)

Embedded(S) ==
  /\ Chk("EMB.neighbours on opposite sides", EmbOpposite(S))
  /\ Chk("EMB.convex boundary", EmbConvex(S))
  /\ Chk("EMB.no overlap", EmbNoOverlap(S))

\* C01/C04/C08: no vertex strictly inside the circumsphere of any cell.
\* A non-zero integer in-sphere determinant at the home coordinates is decisive
\* even for perturbed vertices (the perturbation moves it by << 1), a zero one is
\* never a violation.
StrictViolations(S) ==
  LET P == Pos(S) IN
  UNION {{<<c.id, v>> : v \in {w \in (VIds(S) \ CellSet(c)) \ UnkSet(S) :
                                 InSphere(Pts(P, c.vs), P[w]) > 0 /\ SphereDecisive(S, Pts(P, c.vs), P[w])}} :
         c \in {x \in CRecs(S) : ~HasUnk(S, x.vs)}}
NoStrictlyInside(S) == StrictViolations(S) = {}

\* diagnostics printed next to a failed conjunct (used to recognise known findings)
ViolatorClass(S) ==
  LET V == StrictViolations(S)
      adj(p) == \E d \in CRecs(S) :
                  /\ d.id # p[1] /\ p[2] \in CellSet(d)
                  /\ Cardinality(CellSet(d) \cap CellSet(CRec(S, p[1]))) = S.D
  IN  IF V = {} THEN "none"
      ELSE IF \A p \in V : adj(p) THEN "adjacent-only"
      ELSE IF \E p \in V : adj(p) THEN "mixed"
      ELSE "nonlocal-only"
\* A failed empty-circumsphere conjunct in D >= 4 whose violators include a facet-adjacent
\* (mutual) pair is the signature of the open finding KF-D4 (DESIGN.md 7-a).  It is REPORTED
\* (a WAIVED line carrying the trace line number from TLC register 8, turned into a KNOWN-FINDING
\* or, if no open finding matches, a VIOLATION by ./check) but does not stop the validation of
\* the rest of the history.  Everything else fails the conjunct.
\* Of the facet-adjacent violating pairs (cell c, apex v of the neighbour across facet f): does the
\* k=2 flip of f create a flat cell (some (c + v) - a, a in f, has zero volume)?  The library's repair
\* and flip verifier skip such facets.
DegenerateFlipClass(S) ==
  LET V == StrictViolations(S)
      adjPairs == {p \in V : \E d \in CRecs(S) :
                      /\ d.id # p[1] /\ p[2] \in CellSet(d)
                      /\ Cardinality(CellSet(d) \cap CellSet(CRec(S, p[1]))) = S.D}
      flat(p) == LET c == CellSet(CRec(S, p[1]))
                     d == CHOOSE d \in CRecs(S) : d.id # p[1] /\ p[2] \in CellSet(d)
                                                  /\ Cardinality(CellSet(d) \cap c) = S.D
                     f == c \cap CellSet(d)
                 IN  \E a \in f : Orient(Pts(Pos(S), SetToSeq((c \cup {p[2]}) \ {a}))) = 0
  IN  IF adjPairs = {} THEN "none"
      ELSE IF \A p \in adjPairs : flat(p) THEN "all" ELSE "some-not"

ChkNSI(name, S) ==
  IF TLCGet(9) \/ NoStrictlyInside(S) THEN TRUE
  ELSE LET cls == ViolatorClass(S)
           cvx == IF EmbConvex(S) THEN "yes" ELSE "no"
       IN  IF S.D >= 4 /\ cls \in {"adjacent-only", "mixed"}
           THEN PrintT(<<"WAIVED", TLCGet(8), name, cls, cvx>>)
           ELSE /\ PrintT(<<"CONTRACT-FAIL", name>>)
                /\ PrintT(<<"DIAG", "violators", cls>>)
                /\ PrintT(<<"DIAG", "convex", cvx>>)
                \* cells that are flat at the lattice homes of perturbed vertices: their own predicates
                \* are inside the tolerance band
                /\ PrintT(<<"DIAG", "degflip", DegenerateFlipClass(S)>>)
                /\ PrintT(<<"DIAG", "flatcells",
                            IF \E c \in CRecs(S) : HasPert(S, c.vs) /\ CellOrient(S, c) = 0 THEN "yes" ELSE "no">>)
                /\ FALSE

\* General position of the home coordinates: no D+1 points on a hyperplane,
\* no D+2 points on a sphere.
GeneralPosition(S) ==
  LET P == Pos(S) n == S.D + 1 IN
  /\ \A T \in KSub(VIds(S), n) : Orient(Pts(P, SetToSeq(T))) # 0 /\ OrientDecisive(S, Pts(P, SetToSeq(T)))
  /\ \A T \in KSub(VIds(S), n + 1) :
       LET t == SetToSeq(T)
           ps == [i \in 1..n |-> P[t[i]]]
       IN  LiftedDet(ps, P[t[n + 1]]) # 0
           /\ (ScaleOf(S) = 0 \/ DecSphere(LiftedDet(ps, P[t[n + 1]]), ScaleOf(S), S.D, Append(ps, P[t[n + 1]])))

\* the Delaunay triangulation of the vertex set (unique in general position)
DelaunayCells(S) ==
  LET P == Pos(S) IN
  {T \in KSub(VIds(S), S.D + 1) :
     LET t == Pts(P, SetToSeq(T)) IN
     /\ Orient(t) # 0
     /\ \A v \in VIds(S) \ T : InSphere(t, P[v]) < 0}

\* coordinate-duplicate classification of an argument vertex against a state.
\* Distinct lattice points are >= one lattice unit apart (>> 1e-10 by the choice of
\* scale); a perturbed vertex sits ~1e-8*scale off its home, so a query at its
\* home is neither "within tolerance" nor provably outside it: undetermined.
AtHome(S, m)        == {r \in VRecs(S) : r.m = m}
DupCertain(S, m)    == \E r \in AtHome(S, m) : ~r.pert
DupImpossible(S, m) == AtHome(S, m) = {}

---------------------------------------------------------------------------
\* Vertex bookkeeping shared by several contracts

SameVertexRecords(S, T) == ObsVerts(S) = ObsVerts(T)

\* every vertex of T other than `except` is in S with identical uuid/bits/data
OthersKept(S, T, except) ==
  {ObsVert(r) : r \in {x \in VRecs(S) : x.id \notin except}} = ObsVerts(T)

\* the same for calls that may rebuild the triangulation (an insertion whose repair falls back to the heuristic
\* rebuild re-inserts every vertex and may displace an OLD one by the documented perturbation, as a construction
\* may - C01): home, uuid and data agree; the bits agree unless the vertex is now a documented displacement
OthersKeptOrNudged(S, T, except) ==
  /\ {[id |-> r.id, m |-> r.m, data |-> r.data] : r \in {x \in VRecs(S) : x.id \notin except}}
       = {[id |-> r.id, m |-> r.m, data |-> r.data] : r \in VRecs(T)}
  /\ \A r \in {x \in VRecs(S) : x.id \notin except} :
        \/ ObsVert(r) \in ObsVerts(T)
        \/ r.pert /\ r.dok

\* toroidal canonicalisation of lattice coordinates: L = periods in lattice units (<<>> = Euclidean).
\* TLA+'s % is the mathematical modulus, so the result is in 0..L-1 for negative m as well.
WrapHome(m, L) == IF Len(L) = 0 THEN m ELSE [j \in DOMAIN m |-> m[j] % L[j]]

\* a vertex record is a faithful image of an input vertex a = [u, m, data] (C01 / C16)
ImageOfT(r, a, L) ==
  /\ r.id = a.u /\ r.data = a.data
  /\ (a.cls = "probe" \/ (r.m = WrapHome(a.m, L) /\ (~r.pert \/ r.dok)))
ImageOf(r, a) == ImageOfT(r, a, <<>>)

\* C16: every vertex in the half-open fundamental box, wrapping idempotent
InBox(S) ==
  IF Len(S.cfg.L) = 0 THEN TRUE ELSE
  /\ Chk("C16.vertex outside the half-open fundamental box",
         \* a vertex the insertion had to perturb (documented displacement ~1e-8 * local scale) may
         \* sit that far outside the box; its lattice home must be inside
         \A r \in VRecs(S) : (r.box \/ (r.pert /\ r.dok))
                              /\ (\A j \in DOMAIN r.m : r.m[j] >= 0 /\ r.m[j] <= S.cfg.L[j])
                              /\ (r.pert \/ \A j \in DOMAIN r.m : r.m[j] < S.cfg.L[j]))
  /\ Chk("C16.wrapping is not idempotent", \A r \in VRecs(S) : r.idem \/ (r.pert /\ r.dok))

---------------------------------------------------------------------------
(***************************************************************************)
(* CONTRACTS.  pre/post are state records, a = arguments, r = result.      *)
(***************************************************************************)

\* ---- C01 : batch construction ------------------------------------------
\* where an input vertex really is: its lattice coordinates, or the decimal string of coordinates beyond the exact range
InputPosKey(x) == IF "mw" \in DOMAIN x THEN <<"w", x.mw>> ELSE <<"m", x.m>>
\* a.dedup: 0 Off, 1 Exact, 2 Epsilon (absent = default options = Off)
DedupOn(a) == "dedup" \in DOMAIN a /\ a.dedup # 0

ConstructOK(a, r, post) ==
  LET g == post.cfg.g
      inputs == Range(a.input)
  IN
  /\ Chk("C01.live", post.live /\ post.D = a.D)
  /\ Chk("C01.guarantee", g = a.g)
  /\ Level1(post)
  /\ Level2(post)
  /\ Level3(post, CompletionStrength(g))
  /\ Embedded(post)
  /\ ChkNSI("C01.no vertex strictly inside a circumsphere", post)
  /\ Chk("C16.toroidal domain recorded", post.cfg.L = a.L)
  /\ InBox(post)
  /\ Chk(IF Len(a.L) = 0 THEN "C01.vertices are inputs" ELSE "C16.vertex not congruent to its input",
         \A v \in VRecs(post) : \E x \in inputs : ImageOfT(v, x, a.L))
  /\ Chk("C01.inserted count", r.inserted < 0 \/ r.inserted = Len(post.verts))
  \* every input vertex is inserted, skipped, or - with a dedup policy - dropped by the preprocessing before the
  \* insertion loop (the statistics do not count those)
  /\ Chk("C01.skipped count",
         r.skipped < 0 \/ r.inserted + r.skipped = Len(a.input)
         \/ (DedupOn(a) /\ r.inserted + r.skipped <= Len(a.input)
             /\ r.inserted + r.skipped >= Cardinality({a.input[i].m : i \in DOMAIN a.input})))
  \* completeness: when nothing was skipped, an input vertex can only be missing because the preprocessing dropped it
  \* as a duplicate of ANOTHER input at the same position (the position key is the true coordinate string for
  \* coordinates beyond the exact range)
  /\ Chk("C01.a distinct input vertex is neither present nor counted as skipped",
         r.skipped = 0 =>
           \A i \in DOMAIN a.input :
             a.input[i].u \in VIds(post)
             \/ \E j \in DOMAIN a.input : j # i /\ InputPosKey(a.input[j]) = InputPosKey(a.input[i]))
  \* C09 (construction half): no two stored vertices at one lattice home unless
  \* one is perturbed; every skipped-as-duplicate count is backed by a real duplicate
  /\ Chk("C09.no coincident vertices",
         \A v, w \in VRecs(post) : v.id # w.id /\ v.m = w.m => v.pert \/ w.pert)

\* ---- C16 : periodic image-point mode (the quotient torus) --------------------------------------
\* A lifted vertex is <<id, offset>>; faces are compared up to a common translation of their offsets.
LVert(c, i) == <<c.vs[i], c.off[i]>>
LKey(lv) == lv[1] * 1000000 + Sum([j \in DOMAIN lv[2] |-> (lv[2][j] + 50) * (IF j = 1 THEN 1000 ELSE 1)])
\* translate a set of lifted vertices so that its smallest element (by id, then offset) has offset 0
NormFace(F) ==
  LET m == CHOOSE x \in F : \A y \in F : LKey(x) <= LKey(y)
  IN  {<<x[1], [j \in DOMAIN x[2] |-> x[2][j] - m[2][j]]>> : x \in F}
CellLifted(c) == {LVert(c, i) : i \in DOMAIN c.vs}
PFacet(c, i) == NormFace(CellLifted(c) \ {LVert(c, i)})
PEdges(S) == UNION {{NormFace({LVert(c, i), LVert(c, j)}) : i, j \in {x \in DOMAIN c.vs : TRUE}} \ {NormFace({LVert(c, i)}) : i \in DOMAIN c.vs}
                    : c \in CRecs(S)}

PeriodicOK(a, r, post) ==
  LET inputs == Range(a.input)
      inc == {<<c.id, i>> : c \in CRecs(post), i \in 1..(post.D + 1)}
      facetOf(p) == PFacet(CRec(post, p[1]), p[2])
  IN
  /\ Chk("C16.periodic: live", post.live /\ post.D = a.D)
  /\ Level1(post)
  /\ Chk("C16.periodic: each input point once",
         /\ \A v \in VRecs(post) : \E x \in inputs : ImageOfT(v, x, a.L)
         /\ \A v, w \in VRecs(post) : v.id # w.id => v.m # w.m \/ v.pert \/ w.pert)
  /\ InBox(post)
  /\ Chk("C16.periodic: boundary facets present",
         \A p \in inc : Cardinality({q \in inc : facetOf(q) = facetOf(p)}) = 2)
  /\ Chk("C16.periodic: neighbour slots",
         \A p \in inc : LET q == CHOOSE q \in inc : q # p /\ facetOf(q) = facetOf(p)
                         IN  CRec(post, p[1]).nb[p[2]] = q[1])
  /\ Chk("C16.periodic: Euler characteristic zero",
         Len(post.verts) - Cardinality(PEdges(post)) + Len(post.cells) = 0)

Construct(a, r, post) ==
  \/ r.kind = "Ok" /\ a.ctor # "ToroidalPeriodic" /\ ConstructOK(a, r, post)
  \/ r.kind = "Ok" /\ a.ctor = "ToroidalPeriodic" /\ PeriodicOK(a, r, post)
  \/ r.kind = "Err" /\ Chk("C01.Err leaves no object", ~post.live)

\* ---- C02 / C09 / C03 : incremental insertion -----------------------------
InsertInserted(pre, a, r, post) ==
  LET new == VRecs(post) \ {x \in VRecs(post) : x.id \in VIds(pre)} IN
  /\ Chk("C02.exactly one new vertex",
         Cardinality(new) = 1 /\ Len(post.verts) = Len(pre.verts) + 1)
  /\ Chk(IF Len(pre.cfg.L) = 0 THEN "C02.new vertex carries caller's uuid and data"
         ELSE "C16.later insertion is not wrapped into the domain",
         \A v \in new : ImageOfT(v, a, pre.cfg.L))
  /\ InBox(post)
  /\ Chk("C02.old vertices kept", OthersKeptOrNudged(post, pre, {a.u}))
  /\ Chk("C02.key resolves", r.key_ok)
  /\ Chk("C19.more than one perturbation retry", r.attempts <= 2)
  /\ Chk("C02.policies unchanged", post.cfg = pre.cfg)
  /\ StackOrBootstrap(post, post.cfg.g)
  /\ (post.cfg.cp = "EveryN1" /\ ~Bootstrap(post) => ChkNSI("C02.check policy => Delaunay", post))
  /\ Chk("C09.not a coordinate duplicate", a.cls = "far" \/ ~DupCertain(pre, WrapHome(a.m, pre.cfg.L)))
  /\ Chk("C09.uuid not reused", a.u \notin VIds(pre))

InsertRefused(pre, a, r, post) ==
  /\ Chk("C03.refused insert leaves state unchanged", Obs(post) = Obs(pre))
  /\ Chk("C09.DuplicateCoordinates only for a present vertex",
         r.err = "DuplicateCoordinates" => ~DupImpossible(pre, WrapHome(a.m, pre.cfg.L)) /\ a.cls # "far")
  /\ Chk("C09.DuplicateUuid only for a present uuid",
         r.err = "DuplicateUuid" => a.u \in VIds(pre))
  /\ Chk("C09.coordinate duplicate must be refused as such",
         DupCertain(pre, WrapHome(a.m, pre.cfg.L)) /\ a.cls # "far" /\ a.u \notin VIds(pre)
           => r.err = "DuplicateCoordinates")

Insert(pre, a, r, post) ==
  /\ Chk("C02.still the same object", post.live /\ post.D = pre.D)
  /\ \/ r.kind = "Inserted" /\ InsertInserted(pre, a, r, post)
     \/ r.kind \in {"Skipped", "Err"} /\ InsertRefused(pre, a, r, post)
                                      /\ StackOrBootstrap(post, post.cfg.g)

\* C09 probe at the STORED position of an existing vertex `a.of` (exact bit copy, or a copy displaced
\* by 2^-36 < tolerance, or by 2^-30 > tolerance), fresh uuid
InsertCopy(pre, a, r, post) ==
  /\ Chk("C02.still the same object", post.live /\ post.D = pre.D)
  /\ \/ /\ a.cls \in {"copy", "nearcopy"} /\ a.of \in VIds(pre)
        /\ Chk("C09.copy of a present vertex not refused as a coordinate duplicate",
               r.kind \in {"Skipped", "Err"} /\ r.err = "DuplicateCoordinates")
        /\ Chk("C03.refused insert leaves state unchanged", Obs(post) = Obs(pre))
     \/ /\ a.cls \in {"farcopy", "farcopy27", "farcopy24"} /\ a.of \in VIds(pre)
        /\ Chk("C09.point outside the tolerance refused as a duplicate", r.err # "DuplicateCoordinates")
        /\ Chk("C03.refused insert leaves state unchanged", r.kind = "Inserted" \/ Obs(post) = Obs(pre))
        /\ StackOrBootstrap(post, post.cfg.g)
     \/ /\ a.of \notin VIds(pre)

\* ---- C06 : vertex removal ------------------------------------------------
Remove(pre, a, r, post) ==
  \/ /\ r.kind = "Ok" /\ a.v \in VIds(pre)
     /\ Chk("C06.vertex gone", a.v \notin VIds(post))
     /\ Chk("C06.others kept", OthersKept(pre, post, {a.v}))
     /\ Chk("C06.policies unchanged", post.cfg = pre.cfg)
     /\ Chk("C06.removed count", r.n = Cardinality({c \in CRecs(pre) : a.v \in CellSet(c)}))
     /\ Chk("C06.all cells vanished",
            ~(Len(post.cells) = 0 /\ Len(post.verts) >= post.D + 1))
     /\ (IF Len(post.cells) = 0 THEN Level1(post) ELSE StackOrBootstrap(post, post.cfg.g))
     \* the repair after a removal is seeded with the cells around the removed vertex: it restores the Delaunay
     \* level of a triangulation that HAD it (under EveryN(k) a triangulation may legitimately be non-Delaunay
     \* between two scheduled repairs of insertions, and a removal does not promise to clean that up)
     /\ (post.cfg.rp # "Never" /\ Len(post.cells) > 0 /\ NoStrictlyInside(pre)
           => ChkNSI("C06.repair enabled => Delaunay", post))
  \/ /\ r.kind = "Ok" /\ a.v \notin VIds(pre)
     /\ Chk("C06.unknown vertex is a no-op", r.n = 0 /\ Obs(post) = Obs(pre))
  \/ /\ r.kind = "Err"
     /\ Chk("C03.failed removal leaves state unchanged", Obs(post) = Obs(pre))

\* ---- C07 : bistellar flips ------------------------------------------------
\* A k-move on the (D+2)-vertex set U = A + B removes the |B| = k cells U \ {b}
\* and creates the |A| = D+2-k cells U \ {a}.
MoveK(mv, D) ==
  CASE mv = "k1i" -> 1 [] mv = "k1r" -> D + 1 [] mv = "k2" -> 2 [] mv = "k3" -> 3
    [] mv = "k2inv" -> D [] mv = "k3inv" -> D - 1

FlipOK(pre, a, r, post) ==
  LET Kp == K(pre)  Kq == K(post)
      Rm == Kp \ Kq  Cr == Kq \ Kp
      U  == UNION (Rm \cup Cr)
      B  == {u \in U : (U \ {u}) \in Rm}
      A  == {u \in U : (U \ {u}) \in Cr}
      k  == MoveK(a.mv, pre.D)
      n  == pre.D + 1
  IN
  /\ Level1(post)
  /\ Level2(post)
  /\ Chk("C07.move shape",
         /\ Cardinality(U) = pre.D + 2 /\ A \cap B = {} /\ A \cup B = U
         /\ Rm = {U \ {b} : b \in B} /\ Cr = {U \ {x} : x \in A}
         /\ Cardinality(B) = k)
  /\ Chk("C07.cell count delta", Len(post.cells) - Len(pre.cells) = (pre.D + 2 - k) - k)
  /\ Chk("C07.FlipInfo removed cells",
         Range(r.removed) = CIds(pre) \ CIds(post)
         /\ {CellSet(CRec(pre, c)) : c \in Range(r.removed)} = Rm)
  /\ Chk("C07.FlipInfo created cells",
         Range(r.created) = CIds(post) \ CIds(pre)
         /\ {CellSet(CRec(post, c)) : c \in Range(r.created)} = Cr)
  /\ Chk("C07.FlipInfo faces", Range(r.rface) = A /\ Range(r.iface) = B)
  /\ Chk("C07.untouched cells keep identity",
         \A c \in CRecs(pre) : CellSet(c) \in Kq =>
            \E d \in CRecs(post) : d.id = c.id /\ CellSet(d) = CellSet(c) /\ d.data = c.data)
  /\ Chk("C07.facet degrees preserved", FacetDegOK(Kp) => FacetDegOK(Kq))
  /\ Chk("C07.closed boundary preserved", ClosedBoundary(Kp) => ClosedBoundary(Kq))
  /\ Chk("C07.boundary facets preserved", k >= 2 /\ k <= pre.D => Boundary(Kp) = Boundary(Kq))
  /\ Chk("C07.boundary facets (k1)",
         k = 1 \/ k = pre.D + 1 =>
           Cardinality(Boundary(Kq)) - Cardinality(Boundary(Kp)) \in {-(pre.D), 0, pre.D})
  /\ Chk("C07.connectedness preserved", DualConnected(Kp) => DualConnected(Kq))
  /\ Chk("C07.Euler characteristic preserved", Euler(Kp, n) = Euler(Kq, n))
  /\ Chk("C07.vertex set", CASE k = 1 -> VIds(post) = VIds(pre) \cup B /\ Cardinality(B \ VIds(pre)) = 1
                             [] k = pre.D + 1 -> VIds(post) = VIds(pre) \ A /\ Cardinality(A) = 1
                             [] OTHER -> SameVertexRecords(pre, post))
  /\ Chk("C07.other vertices kept",
         k = 1 => OthersKept(post, pre, B))
  /\ Chk("C07.other vertices kept (k1r)",
         k = pre.D + 1 => OthersKept(pre, post, A))
  /\ Chk("C07.policies unchanged", post.cfg = pre.cfg)

Flip(pre, a, r, post) ==
  \/ r.kind = "Ok" /\ FlipOK(pre, a, r, post)
  \/ r.kind = "Err" /\ Chk("C03.failed flip leaves state unchanged", Obs(post) = Obs(pre))

\* ---- C08 : flip-based repair ------------------------------------------------
\* default_max_flips transcribed from src/core/algorithms/flips.rs
\* default_max_flips transcribed from src/core/algorithms/flips.rs (debug / release profiles)
MaxOf(x, y) == IF x > y THEN x ELSE y
FlipBudget(cells, D, profile) ==
  IF profile = "debug"
  THEN IF D >= 4 THEN MaxOf(4096, cells * (D + 1) * 4)
       ELSE MaxOf(512, cells * (D + 1) * (IF D = 3 THEN 8 ELSE 4))
  ELSE MaxOf(512, cells * (D + 1) * 4)

RepairOK(pre, a, r, post) ==
  \* the heuristic rebuild re-inserts every vertex and may displace one by the documented
  \* perturbation; otherwise the records are identical
  /\ Chk("C08.same vertices",
         IF r.heuristic
         THEN {[id |-> x.id, m |-> x.m, data |-> x.data] : x \in VRecs(pre)}
              = {[id |-> x.id, m |-> x.m, data |-> x.data] : x \in VRecs(post)}
              /\ \A x \in VRecs(post) : ~x.pert \/ x.dok
         ELSE SameVertexRecords(pre, post))
  /\ Chk("C08.policies unchanged", post.cfg = pre.cfg)
  /\ Chk("C19.repair exceeded its flip budget",
         r.heuristic \/ r.flips <= FlipBudget(MaxOf(Len(pre.cells), Len(post.cells)), pre.D, a.profile))
  /\ StackOrBootstrap(post, post.cfg.g)
  /\ ChkNSI("C08.empty circumspheres", post)
  /\ Chk("C08.general position => the Delaunay triangulation",
         Len(post.verts) <= a.gpmax /\ NoStrictlyInside(post) /\ EmbeddedQ(pre) /\ GeneralPosition(post)
           => K(post) = DelaunayCells(post))

Repair(pre, a, r, post) ==
  \/ r.kind = "Ok" /\ RepairOK(pre, a, r, post)
  \/ r.kind = "Err" /\ Chk("C03.failed repair leaves state unchanged", Obs(post) = Obs(pre))

\* ---- C04 : what the validators' verdicts mean ----------------------------------
\* r carries the verdicts of the library on the (unchanged) state S.
Verdicts(S, r) ==
  LET structurallyValid == Level1Q(S) /\ Level2Q(S) /\ BallAt(K(S), NN(S), VIds(S), S.cfg.g)
                           /\ GeometricOrientationOK(S)
  IN
  /\ (r.is_valid /\ structurallyValid => ChkNSI("C04.is_valid accepts => empty circumspheres", S))
  /\ (r.validate => ChkNSI("C04.validate accepts => empty circumspheres", S))
  /\ (r.report_empty => ChkNSI("C04.empty report => empty circumspheres", S))
  /\ (r.via_flips /\ structurallyValid => ChkNSI("C04.flip verifier accepts => empty circumspheres", S))
  /\ (r.brute = 0 /\ structurallyValid => ChkNSI("C04.brute force finds nothing => empty circumspheres", S))
  /\ Chk("C04.cumulative = conjunction", r.validate = r.report_empty)
  /\ Chk("C04.validate => levels", r.validate => r.is_valid /\ r.tri_valid /\ r.tds_valid)
  \* completeness: in general position the genuine Delaunay triangulation is accepted
  /\ Chk("C04.genuine Delaunay triangulation rejected",
         Len(S.verts) <= r.gpmax /\ structurallyValid /\ PertSet(S) = {}
         /\ GeneralPosition(S) /\ K(S) = DelaunayCells(S) /\ EmbeddedQ(S)
           => r.is_valid /\ r.via_flips /\ r.brute = 0)

---------------------------------------------------------------------------
\* ---- C10 : point location ---------------------------------------------------
\* side of q relative to boundary facet f, normalised so that +1 is the inner side
InnerSide(S, f, q) ==
  LET c  == CHOOSE c \in CellsWith(K(S), f) : TRUE
      fs == Pts(Pos(S), SetToSeq(f))
  IN  Side(fs, q) * Side(fs, Pos(S)[ApexOf(c, f)])

StrictlyOutsideHull(S, q) == \E f \in Boundary(K(S)) : InnerSide(S, f, q) < 0
StrictlyInsideHull(S, q)  == \A f \in Boundary(K(S)) : InnerSide(S, f, q) > 0

\* rs = results of locate for one query point under several hints
LocateOne(S, valid, order, item) ==
  LET q == item.q
      out == StrictlyOutsideHull(S, q)
      \* the side of q relative to every hull hyperplane is exactly decidable: no zero
      \* determinant that involves a perturbed (off-lattice) vertex
      dec == \A f \in Boundary(K(S)) :
               InnerSide(S, f, q) # 0 \/ ~(\E v \in (CHOOSE c \in CellsWith(K(S), f) : TRUE) : v \in PertSet(S))
      Cls(k) == IF k = "Outside" THEN "Outside" ELSE IF k \in {"Inside", "OnFacet", "OnEdge"} THEN "In" ELSE k
  IN
  \A i \in DOMAIN item.rs :
    LET r == item.rs[i] IN
    /\ Chk("C19.panic in locate", r.kind # "Panic")
    /\ Chk("C10.locate returns a typed result", r.kind \in {"Inside", "OnFacet", "OnEdge", "OnVertex", "Outside"})
    /\ valid =>
         /\ Chk("C10.returned cell contains the point",
                r.kind \in {"Inside", "OnFacet", "OnEdge"} =>
                   /\ r.cell \in CIds(S)
                   /\ LET c == CRec(S, r.cell) IN
                      HasPert(S, c.vs) \/ InClosedSimplex(Pts(Pos(S), c.vs), q))
         /\ Chk("C10.Outside reported for a point of the hull", r.kind = "Outside" /\ dec => out)
         /\ Chk("C10.strictly outside point not reported Outside", out /\ dec => r.kind = "Outside")
         /\ Chk("C10.OnVertex only on a vertex", r.kind = "OnVertex" => \E v \in VRecs(S) : v.m = q)
    /\ Chk("C10.answer class depends on the hint", valid /\ dec => Cls(r.kind) = Cls(item.rs[1].kind))
    /\ Chk("C10.statistics variant differs", r.kind2 = r.kind /\ r.cell2 = r.cell)
    /\ Chk("C19.walk steps within budget", r.steps <= 10001 /\ (~r.scan => r.steps <= Len(S.cells) + 1))
    \* mechanism: the recorded call is the run of LocateWalk (spec/LocateWalkOps.tla) on this complex from the
    \* recorded start cell: same answer, same number of steps, same use of the scan fallback
    /\ Chk("MODEL.locate is not the LocateWalk run",
           valid /\ PertSet(S) = {} /\ r.steps >= 0 /\ Len(order) = Len(S.cells) =>
             LET C == [k \in DOMAIN order |-> LET c == CRec(S, order[k]) IN [id |-> c.id, vs |-> c.vs, nb |-> c.nb]]
                 w == Walk(Pos(S), C, q, r.start, 10000)
             IN  /\ w.steps = r.steps /\ w.scan = r.scan
                 /\ Cls(r.kind) = (IF w.kind = "In" THEN "In" ELSE "Outside")
                 /\ (w.kind = "In" => w.cell = r.cell))

Locate(S, a, r) ==
  LET valid == Level1Q(S) /\ Level2Q(S) /\ Len(S.cells) > 0
               /\ BallAt(K(S), NN(S), VIds(S), "PLManifoldStrict") /\ GeometricOrientationOK(S) /\ EmbeddedQ(S)
  IN  \A i \in DOMAIN r.qs : LocateOne(S, valid, a.order, r.qs[i])

\* ---- Bowyer-Watson building blocks (core::algorithms::locate::find_conflict_region / extract_cavity_boundary) ----
\* MECHANISM, not a listed property (a mismatch is model drift): the conflict region is the closure, from the start
\* cell, of the cells whose circumsphere has the query inside OR ON it, grown through neighbour pointers; the cavity
\* boundary is the set of facets of region cells whose neighbour is not in the region.
RECURSIVE GrowRegion(_, _, _)
GrowRegion(S, q, R) ==
  LET inC(c) == InSphere(Pts(Pos(S), c.vs), q) >= 0
      add == {d \in CRecs(S) : d.id \notin R /\ inC(d) /\ \E c \in CRecs(S) : c.id \in R /\ d.id \in Range(c.nb)}
  IN  IF add = {} THEN R ELSE GrowRegion(S, q, R \cup {d.id : d \in add})

ConflictOne(S, valid, item) ==
  LET q == item.q
      st == CRec(S, item.start)
      startIn == InSphere(Pts(Pos(S), st.vs), q) >= 0
      R == IF startIn THEN GrowRegion(S, q, {item.start}) ELSE {}
      got == Range(item.cells)
      \* boundary facets as (cell, vertex set)
      wantF == {<<c.id, CellSet(c) \ {c.vs[i]}>> : <<c, i>> \in
                 {ci \in CRecs(S) \X (1..(S.D + 1)) : ci[1].id \in got /\ ci[1].nb[ci[2]] \notin got}}
      gotF  == {<<item.facets[k].cell, Range(item.facets[k].vs)>> : k \in DOMAIN item.facets}
  IN
  /\ Chk("C19.panic in conflict region", item.kind # "Panic")
  /\ (valid /\ item.kind = "Ok" =>
        /\ Chk("MODEL.conflict region is not the in-or-on-sphere closure from the start cell", got = R)
        /\ Chk("MODEL.conflict region lists a cell twice", Cardinality(got) = Len(item.cells))
        /\ Chk("MODEL.cavity boundary is not the boundary of the region", gotF = wantF /\ Cardinality(gotF) = Len(item.facets))
        \* Bowyer-Watson completeness on a Delaunay complex: every cell strictly in conflict is in the region
        /\ Chk("MODEL.conflict region misses a cell whose circumsphere strictly contains the point",
               NoStrictlyInside(S) => \A c \in CRecs(S) : InSphere(Pts(Pos(S), c.vs), q) > 0 => c.id \in got))

Conflict(S, r) ==
  LET valid == Level1Q(S) /\ Level2Q(S) /\ Len(S.cells) > 0 /\ PertSet(S) = {} /\ ScaleOf(S) = 0
               /\ BallAt(K(S), NN(S), VIds(S), "PLManifoldStrict") /\ GeometricOrientationOK(S) /\ EmbeddedQ(S)
  IN  \A i \in DOMAIN r.qs : ConflictOne(S, valid, r.qs[i])

\* hull extension (core::algorithms::incremental_insertion::extend_hull): a point outside the complex is joined to
\* exactly the boundary facets it sees STRICTLY from outside; nothing else changes.  (Mechanism conjunct.)
ExtendHullOne(S, valid, item) ==
  LET q == item.q
      B == Boundary(K(S))
      dec == \A f \in B : InnerSide(S, f, q) # 0
      vis == {f \in B : InnerSide(S, f, q) < 0}
      got == {Range(item.coned[i]) : i \in DOMAIN item.coned}
  IN
  /\ Chk("C19.panic in extend_hull", item.kind # "Panic")
  /\ (valid /\ dec /\ vis # {} =>
        /\ Chk("MODEL.extend_hull refuses a point that strictly sees hull facets", item.kind = "Ok")
        /\ (item.kind = "Ok" =>
              /\ Chk("MODEL.extend_hull does not cone exactly the strictly visible hull facets",
                     got = vis /\ Cardinality(got) = Len(item.coned))
              /\ Chk("MODEL.extend_hull changes the number of cells by something else than the visible facets",
                     item.ncells_after = Len(S.cells) + Cardinality(vis))))

ExtendHull(S, r) ==
  LET valid == Level1Q(S) /\ Level2Q(S) /\ Len(S.cells) > 0 /\ PertSet(S) = {} /\ ScaleOf(S) = 0
               /\ BallAt(K(S), NN(S), VIds(S), "PLManifoldStrict") /\ GeometricOrientationOK(S) /\ EmbeddedQ(S)
  IN  \A i \in DOMAIN r.qs : ExtendHullOne(S, valid, r.qs[i])

\* ---- C11 : convex hull -------------------------------------------------------
\* H = [facets (sequence of vertex-id sets, in the hull's own order), at (Obs at creation)]
HullCreateOK(S, r) ==
  LET F == {Range(r.facets[i]) : i \in DOMAIN r.facets} IN
  /\ Chk("C11.hull facets are the facets incident to one cell", F = Boundary(K(S)))
  /\ Chk("C11.hull facet count", r.n = Len(r.facets) /\ Cardinality(F) = Len(r.facets))
  /\ Chk("C11.each hull facet names its cell",
         \A i \in DOMAIN r.facets : r.cells[i] \in CIds(S) /\ Range(r.facets[i]) \subseteq CellSet(CRec(S, r.cells[i])))
  /\ Chk("C11.closed surface", ClosedBoundary(K(S)))
  /\ Chk("C11.every vertex on the inner side of every hull facet", EmbConvex(S))
  /\ Chk("C11.fresh hull reports itself valid", r.valid_now /\ r.validate_now)

HullQueryOne(S, H, changed, item) ==
  LET q == item.q
      n == Len(H.facets)
      inner(i) == InnerSide(S, H.facets[i], q)
      dec == PertSet(S) = {}
  IN
  /\ Chk("C19.panic in hull query", item.status # "Panic")
  /\ Chk("C11.hull query answered after the triangulation changed", changed => item.status = "Stale")
  /\ Chk("C11.some queries report staleness and others answer", item.status # "Mixed")
  /\ (~changed /\ item.status = "Fresh" /\ dec =>
        /\ Chk("C11.outside verdict", (\E i \in 1..n : inner(i) < 0) => item.outside)
        /\ Chk("C11.inside verdict", (\A i \in 1..n : inner(i) > 0) => ~item.outside /\ Len(item.visible) = 0 /\ item.nearest = 0)
        /\ Chk("C11.per-facet visibility",
               \A i \in 1..n : inner(i) # 0 => item.per[i] = (inner(i) < 0))
        /\ Chk("C11.visible facet list",
               (\A i \in 1..n : inner(i) # 0) => Range(item.visible) = {i \in 1..n : inner(i) < 0})
        /\ Chk("C11.nearest visible facet", item.nearest # 0 => item.nearest \in 1..n /\ inner(item.nearest) <= 0))

HullQuery(S, H, r) ==
  LET changed == ObsCells(S) # H.at.cells \/ ObsVerts(S) # H.at.verts IN
  \A i \in DOMAIN r.qs : HullQueryOne(S, [facets |-> [j \in DOMAIN H.facets |-> Range(H.facets[j])], at |-> H.at],
                                      changed, r.qs[i])

\* ---- C15 : topology and adjacency queries ---------------------------------------
SeqSet(xs) == {Range(xs[i]) : i \in DOMAIN xs}
Queries(S, r) ==
  LET KK == K(S)  n == NN(S)
      valid == Len(S.cells) > 0 /\ Level1Q(S) /\ Level2Q(S) /\ BallAt(KK, n, VIds(S), "Pseudomanifold")
  IN
  /\ Chk("C19.panic in queries", "edges" \in DOMAIN r)
  /\ Chk("C15.edges", SeqSet(r.edges) = Faces(KK, 2) /\ Len(r.edges) = Cardinality(Faces(KK, 2)))
  /\ Chk("C15.number_of_edges", r.n_edges = Cardinality(Faces(KK, 2)))
  /\ Chk("C15.adjacency index builds", Level2Q(S) => r.index_ok)
  /\ Chk("C15.indexed edges", r.index_ok => r.edges_i = r.edges /\ r.n_edges_i = r.n_edges)
  /\ Chk("C15.facets", r.facets_n = Len(S.cells) * n /\ r.facets_d = Cardinality(AllFacets(KK)))
  /\ Chk("C15.boundary facets", SeqSet(r.bfacets) = Boundary(KK) /\ Len(r.bfacets) = Cardinality(Boundary(KK)))
  /\ Chk("C15.cell neighbours",
         /\ {x.c : x \in Range(r.nbrs)} = CIds(S) /\ Len(r.nbrs) = Len(S.cells)
         /\ \A x \in Range(r.nbrs) :
              LET c == CRec(S, x.c) IN
              /\ Range(x.ns) = {d.id : d \in {d \in CRecs(S) : d.id # c.id /\ Adjacent(CellSet(d), CellSet(c))}}
              /\ Len(x.ns) = Cardinality(Range(x.ns))
              /\ x.ns_i = x.ns /\ x.n_i = Len(x.ns)
              /\ x.cv = c.vs)
  /\ Chk("C15.incident cells and edges",
         /\ {x.v : x \in Range(r.adj)} = VIds(S) /\ Len(r.adj) = Len(S.verts)
         /\ \A x \in Range(r.adj) :
              /\ Range(x.cs) = {c.id : c \in {c \in CRecs(S) : x.v \in CellSet(c)}}
              /\ Len(x.cs) = Cardinality(Range(x.cs))
              /\ x.cs_i = x.cs /\ x.n_ac_i = Len(x.cs)
              /\ SeqSet(x.ie) = {e \in Faces(KK, 2) : x.v \in e} /\ Len(x.ie) = Cardinality(SeqSet(x.ie))
              /\ x.ie_i = x.ie /\ x.n_ie = Len(x.ie) /\ x.n_ie_i = Len(x.ie)
              /\ x.coords_ok)
  /\ Chk("C15.simplex counts",
         /\ Len(r.fvec) = n
         /\ r.fvec[1] = Len(S.verts)
         /\ \A k \in 2..n : r.fvec[k] = Cardinality(Faces(KK, k)))
  /\ Chk("C15.Euler characteristic",
         r.chi = Euler(KK, n) + (Len(S.verts) - Cardinality(Verts(KK))))
  /\ Chk("C15.classification",
         valid => /\ r.class \in (IF Len(S.cells) = 1 THEN {"Ball", "SingleSimplex"} ELSE {"Ball"})
                  /\ r.chi = 1)
  /\ Chk("C15.boundary is a closed sphere",
         valid /\ BallAt(KK, n, VIds(S), "PLManifoldStrict") => IsSphere(Boundary(KK), n - 1))
  /\ Chk("C15.boundary simplex counts",
         Len(S.cells) > 0 =>
            /\ Len(r.bvec) >= n - 1
            /\ \A k \in 1..(n - 1) : r.bvec[k] = Cardinality(Faces(Boundary(KK), k)))
  /\ Chk("C15.missing vertex key",
         r.miss_v.tested => r.miss_v.adj = 0 /\ r.miss_v.ie = 0 /\ r.miss_v.n_ie = 0 /\ ~r.miss_v.coords
                            /\ r.miss_v.adj_i = 0 /\ r.miss_v.ie_i = 0)
  /\ Chk("C15.missing cell key",
         r.miss_c.tested => r.miss_c.ns = 0 /\ ~r.miss_c.cv /\ r.miss_c.ns_i = 0)

\* ---- C13 : clone / serialisation round trip ---------------------------------------
NbrRelation(S) == {<<c.id, c.nb[i]>> : c \in CRecs(S), i \in 1..(S.D + 1)} \ {<<c.id, 0>> : c \in CRecs(S)}
CellIdentity(S) == {[id |-> c.id, vs |-> CellSet(c), data |-> c.data] : c \in CRecs(S)}
RelationOf(S) == UNION {{<<c.id, c.nb[i]>> : i \in {j \in DOMAIN c.nb : c.nb[j] # 0}} : c \in CRecs(S)}

CloneOK(src, r, post) ==
  /\ Chk("Clone.same observable state", Obs(post) = Obs(src))
  /\ Chk("Clone.compares equal", r.eq)

SerDeOK(src, r, post) ==
  /\ Chk("C13.same vertices (uuid, coordinate bits, data)", ObsVerts(post) = ObsVerts(src))
  /\ Chk("C13.same cells (uuid, vertex set, data)", CellIdentity(post) = CellIdentity(src))
  /\ Chk("C13.same neighbour relation", RelationOf(post) = RelationOf(src))
  /\ Chk("C13.compares equal to the original", r.eq)
  /\ Chk("C13.passes the same validation levels", r.same_verdicts)
  /\ Chk("C13.structurally consistent after loading", Level1(post) /\ Level2(post))

\* twin objects: same projection up to cell identity and slot order
CompareOK(A, B) ==
  \* a vertex the library had to perturb may be displaced by a different (documented, tiny)
  \* amount in the twin: its home, uuid and data must agree, its bits need not
  /\ Chk("TWIN.vertices differ",
         {[id |-> r.id, m |-> r.m, data |-> r.data, h |-> IF r.pert THEN 0 ELSE r.h] : r \in VRecs(A)}
       = {[id |-> r.id, m |-> r.m, data |-> r.data, h |-> IF r.pert THEN 0 ELSE r.h] : r \in VRecs(B)})
  /\ Chk("TWIN.cells differ", K(A) = K(B))
  /\ Chk("TWIN.policies differ", A.cfg = B.cfg)

---------------------------------------------------------------------------
\* ---- C05 : what the validators must say about a (possibly corrupted) raw state -------------
\* S carries, besides the usual projection, `finite` (per vertex id), `nblen` (raw neighbour
\* buffer length per cell id, -1 = no buffer) and `maps_ok` (uuid <-> key lookups agree).
RawRec(f, id) == f[ToString(id)]

\* the library stores every cell positively oriented in ITS convention, sign det [coords | 1]
\* = (-1)^D * (edge-vector determinant)  (docs/ORIENTATION_SPEC.md; calibrated by C12)
LibSign(S, c) == CellOrient(S, c) * (IF S.D % 2 = 0 THEN 1 ELSE -1)
PositiveOrientation(S) == \A c \in CRecs(S) : HasUnk(S, c.vs) \/ LibSign(S, c) = 1 \/ (HasPert(S, c.vs) /\ CellOrient(S, c) = 0)

Ref1(S) ==
  /\ Level1Q(S)
  /\ \A r \in VRecs(S) : RawRec(S.finite, r.id)
  /\ \A c \in CRecs(S) : RawRec(S.nblen, c.id) \in {-1, S.D + 1}
Ref2(S) == Level2Q(S) /\ S.maps_ok
Ref3(S, g) == Len(S.cells) > 0 /\ BallAt(K(S), NN(S), VIds(S), g) /\ PositiveOrientation(S)
\* certainly valid: no cell whose orientation is inside the tolerance band (zero at the home of a
\* perturbed vertex)
Ref3Sure(S, g) == Ref3(S, g) /\ \A c \in CRecs(S) : LibSign(S, c) = 1

\* ---- public maintenance calls of Tds (mechanism conjuncts: not a listed property) ------------------------------
\* pre = the (possibly corrupted) raw state, post = after the call on a copy of it
Maint(a, r, post) ==
  LET pre == a.pre IN
  /\ Chk("C19.panic in a Tds maintenance call", r.kind # "Panic")
  /\ (a.op = "remove_duplicate_cells" /\ Level1Q(pre) /\ L2a(pre) /\ L2b(pre) =>
        /\ Chk("MODEL.remove_duplicate_cells leaves a duplicate or removes another cell",
               r.kind = "Ok" /\ L2c(post) /\ K(post) = K(pre) /\ ObsVerts(post) = ObsVerts(pre))
        /\ Chk("MODEL.remove_duplicate_cells reports another number than it removed",
               r.n = Len(pre.cells) - Cardinality(K(pre)) /\ Len(post.cells) = Cardinality(K(pre))))
  /\ (a.op = "assign_incident_cells" /\ Level1Q(pre) /\ L2a(pre) /\ L2b(pre) =>
        Chk("MODEL.assign_incident_cells leaves a vertex without a valid incident cell or changes a cell",
            r.kind = "Ok" /\ L2f(post) /\ ObsCells(post) = ObsCells(pre) /\ ObsVerts(post) = ObsVerts(pre)
            /\ \A v \in VRecs(post) : (v.inc = 0) = (\A c \in CRecs(post) : v.id \notin CellSet(c))))
  \* repair_neighbor_pointers rebuilds every neighbour slot from facet incidence: afterwards the slots are exactly
  \* what incidence determines, cells and vertices are untouched
  /\ (a.op = "repair_neighbor_pointers" /\ Level1Q(pre) /\ L2a(pre) /\ L2b(pre) /\ L2c(pre) /\ L2d(pre) =>
        Chk("MODEL.repair_neighbor_pointers leaves a wrong neighbour slot or changes a cell",
            r.kind = "Ok" /\ L2e(post) /\ K(post) = K(pre) /\ ObsVerts(post) = ObsVerts(pre)
            /\ {[id |-> x.id, vs |-> x.vs, data |-> x.data] : x \in CRecs(post)} = {[id |-> x.id, vs |-> x.vs, data |-> x.data] : x \in CRecs(pre)}))
  /\ (a.op = "clear_then_repair_neighbors" /\ Level1Q(pre) /\ Level2Q(pre) =>
        Chk("MODEL.clear_all_neighbors + repair_neighbor_pointers does not restore the neighbour relation",
            r.kind = "Ok" /\ ObsCells(post) = ObsCells(pre) /\ ObsVerts(post) = ObsVerts(pre)))
  /\ (a.op = "is_connected" /\ Level1Q(pre) /\ Level2Q(pre) /\ Len(pre.cells) > 0 =>
        Chk("MODEL.is_connected disagrees with facet connectivity", (r.n = 1) = DualConnected(K(pre))))
  /\ (a.op = "star_of_each_vertex" /\ Level1Q(pre) /\ Level2Q(pre) =>
        \* find_cells_containing_vertex_by_key walks neighbour pointers from the incident cell: it returns the
        \* FACET-CONNECTED part of the star that contains the incident cell (the whole star on a manifold complex)
        Chk("MODEL.star walk returns a cell outside the star or misses part of its facet-connected component",
            \A i \in DOMAIN r.stars :
              LET v == r.stars[i].v
                  got == Range(r.stars[i].cells)
                  star == {c.id : c \in {x \in CRecs(pre) : v \in CellSet(x)}}
                  inc == (CHOOSE x \in VRecs(pre) : x.id = v).inc
              IN  /\ got \subseteq star
                  /\ (inc # 0 => inc \in got)
                  /\ \A c \in CRecs(pre) : c.id \in got => \A k \in DOMAIN c.nb : c.nb[k] \in star /\ c.vs[k] # v => c.nb[k] \in got))

Faulted(S, a, r) ==
  LET g  == S.cfg.g
      r1 == Ref1(S)
      r2 == r1 /\ Ref2(S)
      r3 == r2 /\ Ref3(S, g)
      lib1 == r.cells_valid /\ r.verts_valid
  IN
  /\ Chk("C19.panic in a validator", "tds_valid" \in DOMAIN r)
  \* an uncorrupted triangulation passes everything
  /\ Chk("C05.valid triangulation rejected",
         a.clean /\ r3 => lib1 /\ r.tds_valid /\ r.tds_validate /\ r.tri_valid /\ r.tri_validate /\ r.tri_completion)
  \* soundness: the level that owns a violated invariant rejects
  /\ Chk("C05.element level accepts an invalid element", ~r1 => ~lib1 /\ ~r.tds_validate /\ ~r.tri_validate /\ ~r.validate)
  /\ Chk("C05.structural level accepts an invalid structure",
         r1 /\ ~r2 => ~r.tds_valid /\ ~r.tds_validate /\ ~r.tri_validate /\ ~r.validate)
  /\ Chk("C05.manifold level accepts an invalid complex",
         r2 /\ ~r3 => ~r.tri_valid /\ ~r.tri_validate /\ ~r.validate)
  /\ Chk("C05.completion check accepts a non-manifold vertex link",
         r2 /\ g = "PLManifold" /\ ~VertexLinksOK(K(S), NN(S)) => ~r.tri_completion)
  \* completeness: a state on which every invariant of a level holds is accepted by that level
  /\ Chk("C05.element level rejects valid elements", r1 => lib1)
  /\ Chk("C05.structural level rejects a valid structure", r2 => r.tds_valid /\ r.tds_validate)
  /\ Chk("C05.manifold level rejects a valid complex", r2 /\ Ref3Sure(S, g) => r.tri_valid /\ r.tri_validate)
  \* cumulative validators = conjunction of their levels; report empty <=> cumulative passes
  /\ Chk("C05.Tds::validate is not the conjunction of Levels 1 and 2", r.tds_validate = (lib1 /\ r.tds_valid))
  /\ Chk("C05.Triangulation::validate is not the conjunction of Levels 1-3", r.tri_validate = (r.tds_validate /\ r.tri_valid))
  /\ Chk("C05.validate is not the conjunction of Levels 1-4", r.validate = (r.tri_validate /\ r.is_valid))
  /\ Chk("C05.diagnostic report empty <=> cumulative validation passes", r.report_empty = r.validate)
=============================================================================
