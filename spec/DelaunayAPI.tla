---------------------------- MODULE DelaunayAPI ----------------------------
(***************************************************************************)
(* CONTRACT LAYER of the specification of acgetchell/delaunay.             *)
(*                                                                         *)
(* The abstract state of one triangulation object is a record S            *)
(*   S.live   : BOOLEAN                                                    *)
(*   S.D      : dimension                                                  *)
(*   S.verts  : sequence of [id, u, m, h, data, pert, dok, inc]            *)
(*                id = u  small integer standing for the vertex UUID       *)
(*                m     home lattice coordinates (tuple of D integers)     *)
(*                h     hash of the stored coordinate BITS                 *)
(*                pert  stored coordinates differ from the lattice home    *)
(*                dok   ... by no more than the documented perturbation    *)
(*                inc   id of the incident cell, 0 if none                 *)
(*   S.cells  : sequence of [id, vs, nb, data]                             *)
(*                id    small integer standing for the cell UUID           *)
(*                vs    ORDERED vertex slots (tuple of D+1 vertex ids)     *)
(*                nb    neighbour slots (cell id, 0 = none); slot i is     *)
(*                      opposite vertex slot i                             *)
(*   S.cfg    : [g, vp, rp, cp, topo]  guarantee and policies              *)
(*   S.gen    : modification generation (hull staleness counter)           *)
(*   S.nv, S.nc : the counts the API reports                               *)
(*                                                                         *)
(* This module defines, as pure predicates over (pre-state, arguments,     *)
(* result, post-state), what every public call promises.  The transition   *)
(* system that uses them is in Trace_API (recorded behaviours) and in the  *)
(* mechanism modules (Caches, FlipRepair, ...).  All oracles are           *)
(* recomputed from the raw cells and integer coordinates.                  *)
(***************************************************************************)
EXTENDS Geometry, Topology, TLC

Range(s) == {s[i] : i \in DOMAIN s}

\* A failed conjunct is named on stdout so that a rejected trace explains itself.
Chk(name, cond) == IF cond THEN TRUE ELSE PrintT(<<"CONTRACT-FAIL", name>>) /\ FALSE

---------------------------------------------------------------------------
\* Projections of a state record

NoState == [live |-> FALSE]

VRecs(S)  == Range(S.verts)
CRecs(S)  == Range(S.cells)
VIds(S)   == {r.id : r \in VRecs(S)}
CIds(S)   == {c.id : c \in CRecs(S)}
VRec(S, v) == CHOOSE r \in VRecs(S) : r.id = v
CRec(S, c) == CHOOSE r \in CRecs(S) : r.id = c
Pos(S)    == [v \in VIds(S) |-> VRec(S, v).m]
PertSet(S) == {r.id : r \in {x \in VRecs(S) : x.pert}}
CellSet(c) == Range(c.vs)
K(S)      == {CellSet(c) : c \in CRecs(S)}
NN(S)     == S.D + 1
Pts(P, vs) == [i \in DOMAIN vs |-> P[vs[i]]]

\* what C03 calls "every observable aspect": everything except the generation
\* counter and the incident-cell pointers (an internal acceleration field)
ObsVert(r) == [id |-> r.id, m |-> r.m, h |-> r.h, data |-> r.data]
ObsVerts(S) == {ObsVert(r) : r \in VRecs(S)}
ObsCells(S) == {[id |-> c.id, vs |-> c.vs, nb |-> c.nb, data |-> c.data] : c \in CRecs(S)}
Obs(S) == [verts |-> ObsVerts(S), cells |-> ObsCells(S), cfg |-> S.cfg,
           nv |-> S.nv, nc |-> S.nc]

\* order-insensitive view used where cell UUIDs / slot order may legitimately differ
CellsByVerts(S) == K(S)

---------------------------------------------------------------------------
\* LEVEL 1 (elements) recomputed from the raw representation

L1a(S) == Cardinality(VIds(S)) = Len(S.verts)
L1b(S) == \A r \in VRecs(S) : Len(r.m) = S.D
L1c(S) == \A c \in CRecs(S) : Len(c.vs) = S.D + 1
L1d(S) == \A c \in CRecs(S) : Cardinality(CellSet(c)) = Len(c.vs)
L1e(S) == \A c \in CRecs(S) : Len(c.nb) = S.D + 1
L1f(S) == S.nv = Len(S.verts) /\ S.nc = Len(S.cells)
Level1Q(S) == L1a(S) /\ L1b(S) /\ L1c(S) /\ L1d(S) /\ L1e(S) /\ L1f(S)
Level1(S) ==
  /\ Chk("L1.vertex ids distinct", L1a(S))
  /\ Chk("L1.vertex dimension", L1b(S))
  /\ Chk("L1.cell arity", L1c(S))
  /\ Chk("L1.cell vertices distinct", L1d(S))
  /\ Chk("L1.neighbour buffer length", L1e(S))
  /\ Chk("L1.counts", L1f(S))

\* parity (0 even / 1 odd) of the permutation taking sequence s to sequence t
\* (same elements)
PosIn(s, x) == CHOOSE i \in DOMAIN s : s[i] = x
PermParity(s, t) ==
  Cardinality({p \in (DOMAIN t) \X (DOMAIN t) :
                 p[1] < p[2] /\ PosIn(s, t[p[1]]) > PosIn(s, t[p[2]])}) % 2

\* LEVEL 2 (structure): maps, live keys, no duplicate cell, facet degree <= 2,
\* neighbour slots fully determined by incidence (slot i opposite vertex i),
\* incident cells, coherent combinatorial orientation
FacetOpp(c, i) == CellSet(c) \ {c.vs[i]}
SeqWithout(s, i) == [k \in 1..(Len(s) - 1) |-> IF k < i THEN s[k] ELSE s[k + 1]]

NeighbourSlotsOK(S) ==
  \A c \in CRecs(S) : \A i \in DOMAIN c.vs :
    LET f == FacetOpp(c, i)
        others == {d \in CRecs(S) : d.id # c.id /\ f \subseteq CellSet(d)}
    IN  IF others = {} THEN c.nb[i] = 0
        ELSE \E d \in others : c.nb[i] = d.id

CoherentOrientation(S) ==
  \A c \in CRecs(S) : \A i \in DOMAIN c.vs :
    c.nb[i] # 0 /\ c.nb[i] \in CIds(S) =>
      LET d == CRec(S, c.nb[i])
          f == FacetOpp(c, i)
      IN  f \subseteq CellSet(d) =>
            LET j  == CHOOSE k \in DOMAIN d.vs : d.vs[k] \notin f
                fc == SeqWithout(c.vs, i)
                fd == SeqWithout(d.vs, j)
            IN  \* induced orientations on the shared facet are opposite
                (PermParity(fc, fd) + i + j) % 2 = 1

L2a(S) == Cardinality(CIds(S)) = Len(S.cells)
L2b(S) == \A c \in CRecs(S) : CellSet(c) \subseteq VIds(S)
L2c(S) == Cardinality(K(S)) = Len(S.cells)
L2d(S) == \A f \in AllFacets(K(S)) : FacetDeg(K(S), f) <= 2
L2e(S) == NeighbourSlotsOK(S)
L2f(S) == \A r \in VRecs(S) : r.inc = 0 \/ (r.inc \in CIds(S) /\ r.id \in CellSet(CRec(S, r.inc)))
L2g(S) == CoherentOrientation(S)
Level2Q(S) == L2a(S) /\ L2b(S) /\ L2c(S) /\ L2d(S) /\ L2e(S) /\ L2f(S) /\ L2g(S)
Level2(S) ==
  /\ Chk("L2.cell ids distinct", L2a(S))
  /\ Chk("L2.cell vertices live", L2b(S))
  /\ Chk("L2.no duplicate cells", L2c(S))
  /\ Chk("L2.facet degree <= 2", L2d(S))
  /\ Chk("L2.neighbour slots", L2e(S))
  /\ Chk("L2.incident cells", L2f(S))
  /\ Chk("L2.coherent orientation", L2g(S))

---------------------------------------------------------------------------
\* LEVEL 3 (manifold topology at the configured strength) + geometric orientation

\* orientation sign of a stored cell, at the home coordinates
CellOrient(S, c) == Orient(Pts(Pos(S), c.vs))
HasPert(S, vs)   == \E i \in DOMAIN vs : vs[i] \in PertSet(S)

\* Every cell non-degenerate and all cells of one geometric orientation.  A cell
\* containing a perturbed vertex whose home determinant is zero is undecidable
\* (inside the tolerance band) and is skipped.
GeometricOrientationOK(S) ==
  LET dec == {c \in CRecs(S) : ~(HasPert(S, c.vs) /\ CellOrient(S, c) = 0)}
  IN  /\ \A c \in dec : CellOrient(S, c) # 0
      /\ \A c, d \in dec : CellOrient(S, c) = CellOrient(S, d)

Level3(S, g) ==
  LET KK == K(S) n == NN(S) IN
  /\ Chk("L3.at least one cell", KK # {})
  /\ Chk("L3.facet degree in {1,2}", FacetDegOK(KK))
  /\ Chk("L3.connected", DualConnected(KK))
  /\ Chk("L3.boundary non-empty and closed", Boundary(KK) # {} /\ ClosedBoundary(KK))
  /\ Chk("L3.no isolated vertex", Verts(KK) = VIds(S))
  /\ Chk("L3.Euler characteristic 1", Euler(KK, n) = 1)
  /\ Chk("L3.ridge links", g \in {"PLManifold", "PLManifoldStrict"} => RidgeLinksOK(KK, n))
  /\ Chk("L3.vertex links", g = "PLManifoldStrict" => VertexLinksOK(KK, n))
  /\ Chk("L3.geometric orientation", GeometricOrientationOK(S))

Bootstrap(S) == Len(S.verts) < S.D + 1 /\ Len(S.cells) = 0

\* "the validity stack": Levels 1-3 recomputed; g = strength to demand
ValidStack(S, g) == Level1(S) /\ Level2(S) /\ Level3(S, g)
StackOrBootstrap(S, g) == Level1(S) /\ (IF Bootstrap(S) THEN TRUE ELSE Level2(S) /\ Level3(S, g))

\* the strength a *finished construction* certifies (validate_at_completion adds
\* vertex links for PLManifold)
CompletionStrength(g) == IF g = "Pseudomanifold" THEN g ELSE "PLManifoldStrict"

---------------------------------------------------------------------------
\* Embedding in R^D with convex boundary (C01: "simplicial ball with convex boundary")

ApexOf(cs, f) == CHOOSE v \in cs : v \notin f
\* an arbitrary but fixed ordering of a facet's vertices
RECURSIVE SetToSeq(_)
SetToSeq(T) == IF T = {} THEN <<>>
               ELSE LET x == CHOOSE y \in T : \A z \in T : y <= z
                    IN  <<x>> \o SetToSeq(T \ {x})

EmbDec(S, T) == ~(\E v \in T : v \in PertSet(S))
EmbSide(S, f, v) == Side(Pts(Pos(S), SetToSeq(f)), Pos(S)[v])

\* adjacent cells lie strictly on opposite sides of their common facet
EmbOpposite(S) ==
  LET KK == K(S) IN
  \A f \in AllFacets(KK) :
    LET cs == CellsWith(KK, f) IN
    Cardinality(cs) = 2 =>
      LET a == CHOOSE c \in cs : TRUE
          b == CHOOSE c \in cs : c # a
          sa == EmbSide(S, f, ApexOf(a, f))
          sb == EmbSide(S, f, ApexOf(b, f))
      IN  (sa * sb < 0) \/ (~EmbDec(S, a \cup b) /\ sa * sb = 0)

\* every boundary facet lies on a supporting hyperplane of the whole vertex set
EmbConvex(S) ==
  LET KK == K(S) IN
  \A f \in Boundary(KK) :
    LET c  == CHOOSE c \in CellsWith(KK, f) : TRUE
        sa == EmbSide(S, f, ApexOf(c, f))
    IN  \A v \in VIds(S) : EmbSide(S, f, v) * sa >= 0 \/ (~EmbDec(S, c \cup {v}) /\ sa = 0)

\* degree one: the centroid of every cell lies in the closed simplex of no other
\* cell (coordinates scaled by D+1 so the centroid is integral)
EmbNoOverlap(S) ==
  LET KK == K(S) P == Pos(S) IN
  \A c \in KK :
    LET n == Cardinality(c)
        ctr == VSum(Pts(P, SetToSeq(c)))
    IN  \A d \in KK \ {c} :
          EmbDec(S, d \cup c) =>
            ~InClosedSimplex([i \in 1..n |-> Scale(P[SetToSeq(d)[i]], n)], ctr)

\* silent version (used in antecedents and diagnostics)
EmbeddedQ(S) == EmbOpposite(S) /\ EmbConvex(S) /\ EmbNoOverlap(S)

Embedded(S) ==
  /\ Chk("EMB.neighbours on opposite sides", EmbOpposite(S))
  /\ Chk("EMB.convex boundary", EmbConvex(S))
  /\ Chk("EMB.no overlap", EmbNoOverlap(S))

\* C01/C04/C08: no vertex strictly inside the circumsphere of any cell.
\* A non-zero integer in-sphere determinant at the home coordinates is decisive
\* even for perturbed vertices (the perturbation moves it by << 1), a zero one is
\* never a violation.
StrictViolations(S) ==
  LET P == Pos(S) IN
  UNION {{<<c.id, v>> : v \in {w \in VIds(S) \ CellSet(c) :
                                 InSphere(Pts(P, c.vs), P[w]) > 0}} : c \in CRecs(S)}
NoStrictlyInside(S) == StrictViolations(S) = {}

\* diagnostics printed next to a failed conjunct (used to recognise known findings)
ViolatorClass(S) ==
  LET V == StrictViolations(S)
      adj(p) == \E d \in CRecs(S) :
                  /\ d.id # p[1] /\ p[2] \in CellSet(d)
                  /\ Cardinality(CellSet(d) \cap CellSet(CRec(S, p[1]))) = S.D
  IN  IF V = {} THEN "none"
      ELSE IF \A p \in V : adj(p) THEN "adjacent-only"
      ELSE IF \E p \in V : adj(p) THEN "mixed"
      ELSE "nonlocal-only"
ChkNSI(name, S) ==
  IF NoStrictlyInside(S) THEN TRUE
  ELSE /\ PrintT(<<"CONTRACT-FAIL", name>>)
       /\ PrintT(<<"DIAG", "violators", ViolatorClass(S)>>)
       /\ PrintT(<<"DIAG", "convex", IF EmbConvex(S) THEN "yes" ELSE "no">>)
       /\ FALSE

\* General position of the home coordinates: no D+1 points on a hyperplane,
\* no D+2 points on a sphere.
GeneralPosition(S) ==
  LET P == Pos(S) n == S.D + 1 IN
  /\ \A T \in KSub(VIds(S), n) : Orient(Pts(P, SetToSeq(T))) # 0
  /\ \A T \in KSub(VIds(S), n + 1) :
       LET t == SetToSeq(T) IN
       LiftedDet([i \in 1..n |-> P[t[i]]], P[t[n + 1]]) # 0

\* the Delaunay triangulation of the vertex set (unique in general position)
DelaunayCells(S) ==
  LET P == Pos(S) IN
  {T \in KSub(VIds(S), S.D + 1) :
     LET t == Pts(P, SetToSeq(T)) IN
     /\ Orient(t) # 0
     /\ \A v \in VIds(S) \ T : InSphere(t, P[v]) < 0}

\* coordinate-duplicate classification of an argument vertex against a state.
\* Distinct lattice points are >= one lattice unit apart (>> 1e-10 by the choice of
\* scale); a perturbed vertex sits ~1e-8*scale off its home, so a query at its
\* home is neither "within tolerance" nor provably outside it: undetermined.
AtHome(S, m)        == {r \in VRecs(S) : r.m = m}
DupCertain(S, m)    == \E r \in AtHome(S, m) : ~r.pert
DupImpossible(S, m) == AtHome(S, m) = {}

---------------------------------------------------------------------------
\* Vertex bookkeeping shared by several contracts

SameVertexRecords(S, T) == ObsVerts(S) = ObsVerts(T)

\* every vertex of T other than `except` is in S with identical uuid/bits/data
OthersKept(S, T, except) ==
  {ObsVert(r) : r \in {x \in VRecs(S) : x.id \notin except}} = ObsVerts(T)

\* a vertex record is a faithful image of an input vertex a = [u, m, data]
ImageOf(r, a) ==
  /\ r.id = a.u /\ r.m = a.m /\ r.data = a.data
  /\ (~r.pert \/ r.dok)

---------------------------------------------------------------------------
(***************************************************************************)
(* CONTRACTS.  pre/post are state records, a = arguments, r = result.      *)
(***************************************************************************)

\* ---- C01 : batch construction ------------------------------------------
ConstructOK(a, r, post) ==
  LET g == post.cfg.g
      inputs == Range(a.input)
  IN
  /\ Chk("C01.live", post.live /\ post.D = a.D)
  /\ Chk("C01.guarantee", g = a.g)
  /\ Level1(post)
  /\ Level2(post)
  /\ Level3(post, CompletionStrength(g))
  /\ Embedded(post)
  /\ ChkNSI("C01.no vertex strictly inside a circumsphere", post)
  /\ Chk("C01.vertices are inputs",
         \A v \in VRecs(post) : \E x \in inputs : ImageOf(v, x))
  /\ Chk("C01.inserted count", r.inserted < 0 \/ r.inserted = Len(post.verts))
  /\ Chk("C01.skipped count",
         r.skipped < 0 \/ r.inserted + r.skipped = Len(a.input))
  \* C09 (construction half): no two stored vertices at one lattice home unless
  \* one is perturbed; every skipped-as-duplicate count is backed by a real duplicate
  /\ Chk("C09.no coincident vertices",
         \A v, w \in VRecs(post) : v.id # w.id /\ v.m = w.m => v.pert \/ w.pert)

Construct(a, r, post) ==
  \/ r.kind = "Ok" /\ ConstructOK(a, r, post)
  \/ r.kind = "Err" /\ Chk("C01.Err leaves no object", ~post.live)

\* ---- C02 / C09 / C03 : incremental insertion -----------------------------
InsertInserted(pre, a, r, post) ==
  LET new == VRecs(post) \ {x \in VRecs(post) : x.id \in VIds(pre)} IN
  /\ Chk("C02.exactly one new vertex",
         Cardinality(new) = 1 /\ Len(post.verts) = Len(pre.verts) + 1)
  /\ Chk("C02.new vertex carries caller's uuid and data",
         \A v \in new : ImageOf(v, a))
  /\ Chk("C02.old vertices kept", OthersKept(post, pre, {a.u}))
  /\ Chk("C02.key resolves", r.key_ok)
  /\ Chk("C02.policies unchanged", post.cfg = pre.cfg)
  /\ StackOrBootstrap(post, post.cfg.g)
  /\ (post.cfg.cp = "EveryN1" /\ ~Bootstrap(post) => ChkNSI("C02.check policy => Delaunay", post))
  /\ Chk("C09.not a coordinate duplicate", a.cls = "far" \/ ~DupCertain(pre, a.m))
  /\ Chk("C09.uuid not reused", a.u \notin VIds(pre))

InsertRefused(pre, a, r, post) ==
  /\ Chk("C03.refused insert leaves state unchanged", Obs(post) = Obs(pre))
  /\ Chk("C09.DuplicateCoordinates only for a present vertex",
         r.err = "DuplicateCoordinates" => ~DupImpossible(pre, a.m) /\ a.cls # "far")
  /\ Chk("C09.DuplicateUuid only for a present uuid",
         r.err = "DuplicateUuid" => a.u \in VIds(pre))
  /\ Chk("C09.coordinate duplicate must be refused as such",
         DupCertain(pre, a.m) /\ a.cls # "far" /\ a.u \notin VIds(pre)
           => r.err = "DuplicateCoordinates")

Insert(pre, a, r, post) ==
  /\ Chk("C02.still the same object", post.live /\ post.D = pre.D)
  /\ \/ r.kind = "Inserted" /\ InsertInserted(pre, a, r, post)
     \/ r.kind \in {"Skipped", "Err"} /\ InsertRefused(pre, a, r, post)
                                      /\ StackOrBootstrap(post, post.cfg.g)

\* ---- C06 : vertex removal ------------------------------------------------
Remove(pre, a, r, post) ==
  \/ /\ r.kind = "Ok" /\ a.v \in VIds(pre)
     /\ Chk("C06.vertex gone", a.v \notin VIds(post))
     /\ Chk("C06.others kept", OthersKept(pre, post, {a.v}))
     /\ Chk("C06.policies unchanged", post.cfg = pre.cfg)
     /\ Chk("C06.removed count", r.n = Cardinality({c \in CRecs(pre) : a.v \in CellSet(c)}))
     /\ Chk("C06.all cells vanished",
            ~(Len(post.cells) = 0 /\ Len(post.verts) >= post.D + 1))
     /\ (IF Len(post.cells) = 0 THEN Level1(post) ELSE StackOrBootstrap(post, post.cfg.g))
     /\ (post.cfg.rp # "Never" /\ Len(post.cells) > 0 => ChkNSI("C06.repair enabled => Delaunay", post))
  \/ /\ r.kind = "Ok" /\ a.v \notin VIds(pre)
     /\ Chk("C06.unknown vertex is a no-op", r.n = 0 /\ Obs(post) = Obs(pre))
  \/ /\ r.kind = "Err"
     /\ Chk("C03.failed removal leaves state unchanged", Obs(post) = Obs(pre))

\* ---- C07 : bistellar flips ------------------------------------------------
\* A k-move on the (D+2)-vertex set U = A + B removes the |B| = k cells U \ {b}
\* and creates the |A| = D+2-k cells U \ {a}.
MoveK(mv, D) ==
  CASE mv = "k1i" -> 1 [] mv = "k1r" -> D + 1 [] mv = "k2" -> 2 [] mv = "k3" -> 3
    [] mv = "k2inv" -> D [] mv = "k3inv" -> D - 1

FlipOK(pre, a, r, post) ==
  LET Kp == K(pre)  Kq == K(post)
      Rm == Kp \ Kq  Cr == Kq \ Kp
      U  == UNION (Rm \cup Cr)
      B  == {u \in U : (U \ {u}) \in Rm}
      A  == {u \in U : (U \ {u}) \in Cr}
      k  == MoveK(a.mv, pre.D)
      n  == pre.D + 1
  IN
  /\ Level1(post)
  /\ Level2(post)
  /\ Chk("C07.move shape",
         /\ Cardinality(U) = pre.D + 2 /\ A \cap B = {} /\ A \cup B = U
         /\ Rm = {U \ {b} : b \in B} /\ Cr = {U \ {x} : x \in A}
         /\ Cardinality(B) = k)
  /\ Chk("C07.cell count delta", Len(post.cells) - Len(pre.cells) = (pre.D + 2 - k) - k)
  /\ Chk("C07.FlipInfo removed cells",
         Range(r.removed) = CIds(pre) \ CIds(post)
         /\ {CellSet(CRec(pre, c)) : c \in Range(r.removed)} = Rm)
  /\ Chk("C07.FlipInfo created cells",
         Range(r.created) = CIds(post) \ CIds(pre)
         /\ {CellSet(CRec(post, c)) : c \in Range(r.created)} = Cr)
  /\ Chk("C07.FlipInfo faces", Range(r.rface) = A /\ Range(r.iface) = B)
  /\ Chk("C07.untouched cells keep identity",
         \A c \in CRecs(pre) : CellSet(c) \in Kq =>
            \E d \in CRecs(post) : d.id = c.id /\ CellSet(d) = CellSet(c) /\ d.data = c.data)
  /\ Chk("C07.facet degrees preserved", FacetDegOK(Kp) => FacetDegOK(Kq))
  /\ Chk("C07.closed boundary preserved", ClosedBoundary(Kp) => ClosedBoundary(Kq))
  /\ Chk("C07.boundary facets preserved", k >= 2 /\ k <= pre.D => Boundary(Kp) = Boundary(Kq))
  /\ Chk("C07.boundary facets (k1)",
         k = 1 \/ k = pre.D + 1 =>
           Cardinality(Boundary(Kq)) - Cardinality(Boundary(Kp)) \in {-(pre.D), 0, pre.D})
  /\ Chk("C07.connectedness preserved", DualConnected(Kp) => DualConnected(Kq))
  /\ Chk("C07.Euler characteristic preserved", Euler(Kp, n) = Euler(Kq, n))
  /\ Chk("C07.vertex set", CASE k = 1 -> VIds(post) = VIds(pre) \cup B /\ Cardinality(B \ VIds(pre)) = 1
                             [] k = pre.D + 1 -> VIds(post) = VIds(pre) \ A /\ Cardinality(A) = 1
                             [] OTHER -> SameVertexRecords(pre, post))
  /\ Chk("C07.other vertices kept",
         k = 1 => OthersKept(post, pre, B))
  /\ Chk("C07.other vertices kept (k1r)",
         k = pre.D + 1 => OthersKept(pre, post, A))
  /\ Chk("C07.policies unchanged", post.cfg = pre.cfg)

Flip(pre, a, r, post) ==
  \/ r.kind = "Ok" /\ FlipOK(pre, a, r, post)
  \/ r.kind = "Err" /\ Chk("C03.failed flip leaves state unchanged", Obs(post) = Obs(pre))

\* ---- C08 : flip-based repair ------------------------------------------------
\* default_max_flips transcribed from src/core/algorithms/flips.rs
RepairOK(pre, a, r, post) ==
  /\ Chk("C08.same vertices", SameVertexRecords(pre, post))
  /\ Chk("C08.policies unchanged", post.cfg = pre.cfg)
  /\ ValidStack(post, post.cfg.g)
  /\ ChkNSI("C08.empty circumspheres", post)
  /\ Chk("C08.general position => the Delaunay triangulation",
         Len(post.verts) <= a.gpmax /\ EmbeddedQ(pre) /\ GeneralPosition(post)
           => K(post) = DelaunayCells(post))

Repair(pre, a, r, post) ==
  \/ r.kind = "Ok" /\ RepairOK(pre, a, r, post)
  \/ r.kind = "Err" /\ Chk("C03.failed repair leaves state unchanged", Obs(post) = Obs(pre))

\* ---- C04 : what the validators' verdicts mean ----------------------------------
\* r carries the verdicts of the library on the (unchanged) state S.
Verdicts(S, r) ==
  LET structurallyValid == Level1Q(S) /\ Level2Q(S) /\ BallAt(K(S), NN(S), VIds(S), S.cfg.g)
                           /\ GeometricOrientationOK(S)
  IN
  /\ (r.is_valid /\ structurallyValid => ChkNSI("C04.is_valid accepts => empty circumspheres", S))
  /\ (r.validate => ChkNSI("C04.validate accepts => empty circumspheres", S))
  /\ (r.report_empty => ChkNSI("C04.empty report => empty circumspheres", S))
  /\ (r.via_flips /\ structurallyValid => ChkNSI("C04.flip verifier accepts => empty circumspheres", S))
  /\ (r.brute = 0 /\ structurallyValid => ChkNSI("C04.brute force finds nothing => empty circumspheres", S))
  /\ Chk("C04.cumulative = conjunction", r.validate = r.report_empty)
  /\ Chk("C04.validate => levels", r.validate => r.is_valid /\ r.tri_valid /\ r.tds_valid)
  \* completeness: in general position the genuine Delaunay triangulation is accepted
  /\ Chk("C04.genuine Delaunay triangulation rejected",
         Len(S.verts) <= r.gpmax /\ structurallyValid /\ PertSet(S) = {}
         /\ GeneralPosition(S) /\ K(S) = DelaunayCells(S) /\ EmbeddedQ(S)
           => r.is_valid /\ r.via_flips /\ r.brute = 0)
=============================================================================
