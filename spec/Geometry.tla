----------------------------- MODULE Geometry -----------------------------
(***************************************************************************)
(* Exact integer geometry for the oracles.                                 *)
(*                                                                         *)
(* Every coordinate handled here is an integer (the lattice numerator m of *)
(* x = m * 2^s, DESIGN.md section 3).  All predicates are homogeneous, so  *)
(* the common scale 2^s never matters for a sign.  Points are tuples of    *)
(* integers; a "position map" P is a function  vertex id -> point.         *)
(*                                                                         *)
(* Nothing in this module knows about the library: it is the mathematical  *)
(* definition the library is measured against.                             *)
(***************************************************************************)
EXTENDS Integers, Sequences, FiniteSets

Sgn(x) == IF x > 0 THEN 1 ELSE IF x < 0 THEN -1 ELSE 0
Abs(x) == IF x < 0 THEN -x ELSE x

RECURSIVE SumSeq(_, _)
SumSeq(s, i) == IF i > Len(s) THEN 0 ELSE s[i] + SumSeq(s, i + 1)
Sum(s) == SumSeq(s, 1)

RemoveAt(s, k) == [i \in 1..(Len(s) - 1) |-> IF i < k THEN s[i] ELSE s[i + 1]]

(***************************************************************************)
(* Determinant of a square integer matrix (tuple of row tuples) by Laplace *)
(* expansion along rows, skipping zero entries; closed forms for n <= 3.   *)
(* TLC raises an error on 32-bit overflow, it never wraps silently; the    *)
(* grids of DESIGN.md section 3 keep every intermediate below 2^31.        *)
(***************************************************************************)
RECURSIVE DetR(_, _, _)
DetR(M, r, cols) ==
  IF Len(cols) = 1 THEN M[r][cols[1]]
  ELSE IF Len(cols) = 2 THEN
       M[r][cols[1]] * M[r + 1][cols[2]] - M[r][cols[2]] * M[r + 1][cols[1]]
  ELSE Sum([k \in 1..Len(cols) |->
              IF M[r][cols[k]] = 0 THEN 0
              ELSE (IF k % 2 = 1 THEN 1 ELSE -1) * M[r][cols[k]]
                   * DetR(M, r + 1, RemoveAt(cols, k))])

Det(M) ==
  LET n == Len(M) IN
  IF n = 0 THEN 1
  ELSE IF n = 1 THEN M[1][1]
  ELSE IF n = 2 THEN M[1][1] * M[2][2] - M[1][2] * M[2][1]
  ELSE IF n = 3 THEN
         M[1][1] * (M[2][2] * M[3][3] - M[2][3] * M[3][2])
       - M[1][2] * (M[2][1] * M[3][3] - M[2][3] * M[3][1])
       + M[1][3] * (M[2][1] * M[3][2] - M[2][2] * M[3][1])
  ELSE DetR(M, 1, [i \in 1..n |-> i])

VSub(a, b) == [i \in 1..Len(a) |-> a[i] - b[i]]
Dot(a, b)  == Sum([i \in 1..Len(a) |-> a[i] * b[i]])
Norm2(a)   == Dot(a, a)

(***************************************************************************)
(* ps : a tuple of D+1 points in Z^D.  OrientDet > 0 for the "positive"    *)
(* orientation (counter-clockwise in the plane).                           *)
(***************************************************************************)
OrientDet(ps) == Det([i \in 1..(Len(ps) - 1) |-> VSub(ps[i + 1], ps[1])])
Orient(ps)    == Sgn(OrientDet(ps))

(***************************************************************************)
(* Lifted (in-sphere) determinant of D+1 points and a query q, taken       *)
(* relative to q.  Its sign, multiplied by the orientation sign and by a   *)
(* dimension parity fixed below, is +1 exactly when q is strictly inside   *)
(* the circumsphere, 0 on it, -1 outside.                                  *)
(***************************************************************************)
LiftedDet(ps, q) ==
  Det([i \in 1..Len(ps) |->
         LET d == VSub(ps[i], q) IN Append(d, Norm2(d))])

\* The parity is calibrated on a configuration whose answer is known by
\* construction: the simplex (0, 4e1, ..., 4eD) and the interior point (1,..,1).
StdSimplex(D) == [i \in 1..(D + 1) |->
                    [j \in 1..D |-> IF i = j + 1 THEN 4 ELSE 0]]
StdInside(D)  == [j \in 1..D |-> 1]
SphereParity(D) == Sgn(LiftedDet(StdSimplex(D), StdInside(D))) * Orient(StdSimplex(D))

\* parities for the dimensions used (memoised as constants by TLC)
SP1 == SphereParity(1)
SP2 == SphereParity(2)
SP3 == SphereParity(3)
SP4 == SphereParity(4)
SP5 == SphereParity(5)
Parity(D) == CASE D = 1 -> SP1 [] D = 2 -> SP2 [] D = 3 -> SP3 [] D = 4 -> SP4 [] D = 5 -> SP5

\* +1 strictly inside, 0 on the sphere (or degenerate simplex), -1 strictly outside
InSphere(ps, q) ==
  LET o == Orient(ps) IN
  IF o = 0 THEN 0 ELSE Sgn(LiftedDet(ps, q)) * o * Parity(Len(ps) - 1)

(***************************************************************************)
(* Side of a point x relative to the hyperplane through the D points fs.   *)
(***************************************************************************)
SideDet(fs, x) == OrientDet(Append(fs, x))
Side(fs, x)    == Sgn(SideDet(fs, x))

Replace(ps, i, q) == [ps EXCEPT ![i] = q]

\* q in the closed simplex ps (ps non-degenerate)
InClosedSimplex(ps, q) ==
  LET o == Orient(ps) IN
  /\ o # 0
  /\ \A i \in 1..Len(ps) : Orient(Replace(ps, i, q)) * o >= 0

InOpenSimplex(ps, q) ==
  LET o == Orient(ps) IN
  /\ o # 0
  /\ \A i \in 1..Len(ps) : Orient(Replace(ps, i, q)) * o > 0

\* squared distance
Dist2(a, b) == Norm2(VSub(a, b))

\* scale a point by k
Scale(a, k) == [i \in 1..Len(a) |-> k * a[i]]
\* sum of a tuple of points (for centroids, used with coordinates scaled by Len)
RECURSIVE VSumSeq(_, _)
VSumSeq(ps, i) == IF i = Len(ps) THEN ps[i]
                  ELSE [j \in 1..Len(ps[i]) |-> ps[i][j] + VSumSeq(ps, i + 1)[j]]
VSum(ps) == VSumSeq(ps, 1)
=============================================================================
