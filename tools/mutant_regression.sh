#!/bin/bash
# usage: mutant_regression.sh <verif copy> <repo copy> <out file>
# applies every seeded/<id>/patch.diff to the REPO COPY (never to /repo), runs the owning property's quick check from the
# VERIF COPY (whose harness must point at the repo copy) and records whether it reports a violation.
V=$1; R=$2; OUT=$3
: > $OUT
for d in /verif/seeded/*/; do
  n=$(basename $d); p=${n%b}
  git -C $R checkout -q -- . ; 
  if ! git -C $R apply $d/patch.diff 2>/dev/null; then echo "$n $p APPLY-FAILED" >> $OUT; continue; fi
  res=$(cd $V && ./check $p 2>&1 | grep -E "^$p tier=" | tail -1)
  drift=$(cd $V && grep -o '"model_drift": [0-9]*' evidence/$p.json | head -1)
  echo "$n $p $res $drift" >> $OUT
  git -C $R checkout -q -- .
done
echo DONE >> $OUT
