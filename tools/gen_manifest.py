#!/usr/bin/env python3
"""(re)generate /verif/MANIFEST.json from lib/plans.py and the table below"""
import json, sys, os
ROOT = os.path.dirname(os.path.dirname(os.path.abspath(__file__)))
sys.path.insert(0, os.path.join(ROOT, "lib"))
import plans
props = [json.loads(l) for l in open(os.path.join(ROOT, "properties.jsonl"))]
T = "TLA+ specification + TLC: "
TEXT = {
 "C01": ("6 C01", T + "trace validation of every constructor call (full projected result) against DelaunayAPI!Construct - Levels 1-3 recomputed from raw slots, embedding with convex boundary, empty circumspheres, vertex provenance, counts; exhaustive over the 3x3-grid and unit-cube universes, sampled beyond, both build profiles"),
 "C02": ("6 C02", T + "trace validation of insertion histories against DelaunayAPI!Insert after every call (bootstrap or Levels 1-3 at the configured strength, exactly one new vertex, key resolves, check policy => empty circumspheres, judged outside the predicates' tolerance band at the scale of the history); mechanism model InsertTxn.tla of the insertion transaction: TLC exhaustive over policies / counts / environment choices, every generated behaviour replayed through failpoint scripts and validated (Trace_InsertTxn), Apalache inductive invariant for unbounded counts (Apa_InsertTxn.tla)"),
 "C03": ("6 C03", T + "every naturally failing / skipped mutating call in the insert, remove, flip and repair histories is validated against the UNCHANGED-Obs disjunct of its contract action; the cache model adds RefusalsChangeNothing and the rolled-back index; failpoints force every error return that follows a mutation, a twin runs the unforced continuation; mechanism models InsertTxn.tla (+ Apalache inductive invariant) and RemoveTxn.tla: AllOrNothing checked on the model, all model behaviours replayed through failpoint scripts"),
 "C04": ("6 C04", T + "Verdicts events (is_valid, validate, report, flip verifier, brute-force finder) judged against the exact-integer NoStrictlyInside oracle (soundness) and DT(S) in general position (completeness)"),
 "C05": ("6 C05", T + "Faulted events: 17 classes of single faults at every site (and pairs on tiny instances) injected into copies of valid triangulations through cfg(delaunay_verif) raw accessors; the library's per-level and cumulative verdicts are compared by TLC with Levels 1-3 recomputed from the raw projected slots (soundness per owning level, completeness, cumulative = conjunction, report empty <=> validate)"),
 "C06": ("6 C06", T + "trace validation of removal histories against DelaunayAPI!Remove; mechanism model RemoveTxn.tla (fast inverse-k=1 path, fan path with clone / restore, post-removal repair) checked and replayed through failpoint scripts"),
 "C07": ("6 C07", T + "trace validation of Edit-API flips on every handle position against DelaunayAPI!Flip (move shape U=A+B, FlipInfo, combinatorial invariants) and inverse-restores-cells"),
 "C08": ("6 C08", T + "trace validation of both repair entry points from non-Delaunay states against DelaunayAPI!Repair"),
 "C09": ("6 C09", T + "exhaustive model check of the cache mechanism model Caches.tla (IndexComplete, IndexSound, NoDuplicateAccepted); every history TLC generates from it replayed on the real library with the spatial index observed through hooks and compared with the model after every call (Trace_Caches); duplicate/uuid conjuncts of DelaunayAPI!Insert on insertion histories"),
 "C10": ("6 C10", T + "Locate events (all lattice queries x all hints) validated against DelaunayAPI!Locate with exact closed-simplex containment and exact hull sidedness; mechanism model LocateWalk.tla of the facet walk (slot-order choice, visited set, step limit, scan fallback): TLC exhaustive on 2-D / 3-D complexes incl. a cycling pinwheel, and every recorded locate call must be the model's run (answer, steps, fallback)"),
 "C11": ("6 C11", T + "HullFresh model-checked on Caches.tla; generated histories with hull creation/queries replayed and compared; HullCreate/HullQuery events validated against Boundary(K) and exact visibility, staleness after every kind of mutation"),
 "C13": ("6 C13", T + "SerDe events validated against DelaunayAPI!SerDeOK (uuid, coordinate bits, data, cells, neighbour relation, equality, verdicts) and twin continuation Compare events"),
 "C12": ("6 C12", T + "Pred events (every tuple x permutation x formulation x kernel) judged against exact integer determinants in the library's documented sign convention, with the tolerance band computed in the spec (Pure.tla: DecOrient / DecSphere / ZeroOrientOK); exhaustive on the 3x3 grid, the unit cube in the thorough tier"),
 "C14": ("6 C14", T + "history variable memo[determinism key] over repeated, permuted, re-ordered, threaded and cross-process constructions; Canon events require K = DT(S) in general position"),
 "C16": ("6 C16", T + "toroidal Construct / Insert events validated against exact modular arithmetic (w = m mod L), the half-open box, idempotence, and the C01 certificate of the wrapped set; the periodic image-point mode (2-D) is checked on lifted (vertex, offset) faces: every facet in exactly two cells, neighbour slots, chi = 0, each input once"),
 "C17": ("6 C17", T + "complete Hilbert index tables (bijection onto 0..N-1, unit steps) for all small grids D=1..5, permutation contract of every ordering strategy, exact/epsilon dedup contracts of all seven variants, on lattice inputs with ties, signed zeros and near duplicates"),
 "C18": ("6 C18", T + "Gen_Measures: TLC enumerates simplices with exact integer ingredients (determinant, facet Gram determinants, Cramer numerators); each is replayed five times (permutation, translation, scaling) and the library's f64 results are compared with the exact values (relative 1e-9) in the harness; TLC re-derives determinant and degeneracy class of every replayed vector"),
 "C19": ("6 C19", T + "no trace-specification action accepts a panic or watchdog-timeout event; all histories of all families plus an adversarial family (extreme scales, non-finite coordinates at every entry point, mixed magnitudes) are validated in a mode where only the C19 conjuncts (panic, timeout, transcribed work budgets, refusal of non-finite coordinates) can reject"),
 "C15": ("6 C15", T + "Queries events validated against face enumeration (Topology.tla) of the logged cells"),
}
LEVEL_NOTE = ("Trusted: TLC; the TLA+ text of spec/ (Geometry, Topology, DelaunayAPI, Caches); the harness projection "
              "(reads the object through its public API, cache contents through read-only cfg(delaunay_verif) observers); "
              "lattice inputs (exact in f64, integer determinants decide every sign); bounded sizes printed in the evidence. "
              "Open known findings are listed in known_findings.json and reported as KNOWN-FINDING lines.")
checks = []
for p in props:
    pid = p["id"]
    if pid not in plans.PLANS or pid not in TEXT:
        continue
    ref, text = TEXT[pid]
    checks.append({
        "property_id": pid,
        "quick_cmd": "./check %s --tier quick" % pid,
        "thorough_cmd": "./check %s --tier thorough" % pid,
        "evidence_file": "/verif/evidence/%s.json" % pid,
        "replay_cmd_template": "./check %s --replay {path}" % pid,
        "engine": "tlc",
        "level_claimed": {"category": plans.PLANS[pid]["level"], "text": text, "design_ref": "DESIGN.md section " + ref},
        "level_note": LEVEL_NOTE,
        "technique": "explicit TLA+ specification checked with TLC (model checking of mechanism models, trace validation of recorded behaviours, TLC-generated histories replayed into the implementation)",
    })
claimed = {c["property_id"] for c in checks}
na = [{"property_id": p["id"], "reason": "check not built yet in this revision (planned, DESIGN.md section 11); no claim is made"}
      for p in props if p["id"] not in claimed]
hooks = json.load(open(os.path.join(ROOT, "hooks.json")))
m = {"version": 1, "setup_cmd": "./setup.sh",
     "hooks": {"guard": "delaunay_verif",
               "enable": "rustflags --cfg delaunay_verif in /verif/harness/.cargo/config.toml (applies to the path dependency /repo)",
               "baseline_off_cmd": "cd /repo && cargo nextest run --workspace --no-fail-fast --tool-config-file pb:/w/lib/nextest.toml --profile pb --test-threads 8 --offline",
               "source_commits": hooks["source_commits"], "add_only": True},
     "engines": [
         {"name": "tlc", "path": "/verif/spec", "serves_properties": sorted(claimed),
          "kind_free_text": "TLC 1.8: model checking of spec/MC_*.tla, history generation from spec/Gen_*.tla, trace validation with spec/Trace_*.tla"},
         {"name": "apalache", "path": "/verif/spec/Apa_InsertTxn.tla", "serves_properties": ["C02", "C03"],
          "kind_free_text": "Apalache 0.58: inductive invariant of the insertion transaction (same step function as the TLC model) for unbounded counts"},
         {"name": "vdrive", "path": "/verif/harness", "serves_properties": sorted(claimed),
          "kind_free_text": "Rust conformance harness (path dependency on /repo, rebuilt from the working tree): drivers, projection, ndjson traces"}],
     "checks": checks, "not_applicable": na,
     "notes": "Model-based verification with an explicit TLA+ specification; see DESIGN.md. Exit 0 held / 1 violation / 2 tool error."}
json.dump(m, open(os.path.join(ROOT, "MANIFEST.json"), "w"), indent=1)
print("claimed", sorted(claimed), "not_applicable", [x["property_id"] for x in na])
