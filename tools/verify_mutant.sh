#!/bin/bash
# usage: verify_mutant.sh <dir of worktree> ; confirms: demo fails with the patch, passes without, suite passes with it
W=$1; cd $W || exit 2
export CARGO_TARGET_DIR=$W/target
LOG=$W/verify.log; : > $LOG
P=$W/MUTANT/patch.diff
# normalise: make sure patch is applied
git apply -R --check $P 2>/dev/null || git apply $P || { echo "cannot apply patch" >> $LOG; exit 2; }
cp $W/MUTANT/mutant_demo.rs $W/tests/mutant_demo.rs
echo "== demo WITH patch (expect failure)" >> $LOG
cargo test --offline --test mutant_demo >> $LOG 2>&1; echo "demo_with_patch_exit=$?" >> $LOG
git apply -R $P
echo "== demo WITHOUT patch (expect success)" >> $LOG
cargo test --offline --test mutant_demo >> $LOG 2>&1; echo "demo_without_patch_exit=$?" >> $LOG
git apply $P
mv $W/tests/mutant_demo.rs $W/MUTANT/.demo_parked.rs
echo "== suite WITH patch (expect success)" >> $LOG
cargo nextest run --workspace --no-fail-fast --test-threads 6 --offline -E 'not test(test_builder_toroidal_periodic_3d_success)' 2>&1 | tail -5 >> $LOG; echo "suite_exit=${PIPESTATUS[0]}" >> $LOG
mv $W/MUTANT/.demo_parked.rs $W/tests/mutant_demo.rs
grep "_exit=" $LOG
