#!/usr/bin/env python3
"""Debug aid (NOT an oracle): print exact-arithmetic facts about the post-state of trace line N."""
import json, sys, itertools
from fractions import Fraction
def det(m):
    n=len(m)
    if n==0: return 1
    if n==1: return m[0][0]
    s=0
    for c in range(n):
        if m[0][c]==0: continue
        minor=[[m[r][k] for k in range(n) if k!=c] for r in range(1,n)]
        s+=(-1)**c*m[0][c]*det(minor)
    return s
def orient(ps): return det([[ps[i][j]-ps[0][j] for j in range(len(ps[0]))] for i in range(1,len(ps))])
def lifted(ps,q):
    rows=[]
    for p in ps:
        d=[p[j]-q[j] for j in range(len(q))]; rows.append(d+[sum(x*x for x in d)])
    return det(rows)
def sgn(x): return (x>0)-(x<0)
def parity(D):
    std=[[4 if i==j+1 else 0 for j in range(D)] for i in range(D+1)]
    return sgn(lifted(std,[1]*D))*sgn(orient(std))
def insphere(ps,q):
    o=sgn(orient(ps))
    return 0 if o==0 else sgn(lifted(ps,q))*o*parity(len(q))
def main():
    path,line=sys.argv[1],int(sys.argv[2])
    L=[json.loads(l) for l in open(path)]
    # state after line: walk back to last event with post for that obj
    i=line-1
    while 'post' not in L[i]: i-=1
    S=L[i]['post']; print('state from line',i+1,L[i]['ev'],L[i]['tag'])
    P={v['id']:v['m'] for v in S['verts']}
    print('verts',{k:(v, ) for k,v in P.items()}, 'pert',[v['id'] for v in S['verts'] if v['pert']])
    for c in S['cells']:
        ps=[P[v] for v in c['vs']]
        viol=[v for v in P if v not in c['vs'] and insphere(ps,P[v])>0]
        on=[v for v in P if v not in c['vs'] and insphere(ps,P[v])==0]
        print('cell',c['id'],c['vs'],'nb',c['nb'],'orient',orient(ps),'strictly-inside',viol,'cospherical',on)
    tot=sum(abs(orient([P[v] for v in c['vs']])) for c in S['cells'])
    print('sum |det| =',tot)
main()
