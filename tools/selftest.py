#!/usr/bin/env python3
"""
Binding demonstration (DESIGN.md section 9): for every trace specification take a trace recorded from
the real library that TLC ACCEPTS, corrupt ONE logged field (or drop one event) and require TLC to
REJECT it. A spec that accepts a corrupted trace constrains nothing. Exit 0 iff every corruption is
rejected and every original accepted.
"""
import json, os, subprocess, sys, copy, shutil
ROOT = os.path.dirname(os.path.dirname(os.path.abspath(__file__)))
SPEC = os.path.join(ROOT, "spec"); W = os.path.join(ROOT, "work", "selftest")
VD = os.path.join(ROOT, "harness", "target", "debug", "vdrive")
shutil.rmtree(W, ignore_errors=True); os.makedirs(W)

def tlc(module, trace):
    env = dict(os.environ, TRACE=trace, ONLYC19="0", JAVA_TOOL_OPTIONS="-Xss1g -Dtlc2.tool.queue.IStateQueue=StateDeque")
    r = subprocess.run(["tlc", "-workers", "1", "-metadir", trace + ".meta", "-cleanup", "-noGenerateSpecTE", "-config", module + ".cfg", module + ".tla"],
                       cwd=SPEC, env=env, stdout=subprocess.PIPE, stderr=subprocess.STDOUT, text=True)
    shutil.rmtree(trace + ".meta", ignore_errors=True)
    return "Model checking completed. No error has been found." in r.stdout and "TRACE-REJECTED" not in r.stdout and "SOFT-FAIL" not in r.stdout

def drive(fam, out, extra=(), part="0/40"):
    subprocess.run([VD, fam, "--part", part, "--out", out, *extra], check=True, stdout=subprocess.DEVNULL, stderr=subprocess.DEVNULL)
    return [json.loads(l) for l in open(out)]

def write(path, evs):
    open(path, "w").write("\n".join(json.dumps(e) for e in evs) + "\n")

def first_accepted_case(evs, module, want):
    """a Reset-delimited case that contains an event satisfying `want` and is accepted by TLC"""
    cases, cur = [], []
    for e in evs:
        if e["ev"] == "Reset" and cur:
            cases.append(cur); cur = []
        cur.append(e)
    cases.append(cur)
    for c in cases:
        if any(want(e) for e in c):
            p = os.path.join(W, "cand.ndjson"); write(p, c)
            if tlc(module, p):
                return c
    return None

results = []
def demo(name, module, case, mutate):
    good = os.path.join(W, name + ".good.ndjson"); bad = os.path.join(W, name + ".bad.ndjson")
    write(good, case)
    c2 = copy.deepcopy(case); mutate(c2); write(bad, c2)
    ok_good, ok_bad = tlc(module, good), tlc(module, bad)
    results.append((name, ok_good, not ok_bad))
    print("%-46s original accepted: %-5s corrupted rejected: %s" % (name, ok_good, not ok_bad), flush=True)

# ---- Trace_API
evs = drive("insert", os.path.join(W, "ins.ndjson"))
case = first_accepted_case(evs, "Trace_API", lambda e: e["ev"] == "Insert" and e["res"]["kind"] == "Inserted" and len(e["post"]["cells"]) > 2)
def drop_cell(c):
    e = [x for x in c if x["ev"] == "Insert" and x["res"]["kind"] == "Inserted" and len(x["post"]["cells"]) > 2][-1]
    e["post"]["cells"].pop(); e["post"]["nc"] -= 1
demo("Trace_API: drop a cell of a post-state", "Trace_API", case, drop_cell)
def flip_nb(c):
    e = [x for x in c if x["ev"] == "Insert" and x["res"]["kind"] == "Inserted" and len(x["post"]["cells"]) > 2][-1]
    nb = e["post"]["cells"][0]["nb"]; nb[0], nb[1] = nb[1], nb[0]
demo("Trace_API: swap two neighbour slots", "Trace_API", case, flip_nb)
def lie_result(c):
    e = [x for x in c if x["ev"] == "Insert" and x["res"]["kind"] == "Inserted"][-1]
    e["res"]["kind"] = "Err"; e["res"]["err"] = "CavityFilling"
demo("Trace_API: report Err for a committed insert", "Trace_API", case, lie_result)
def drop_event(c):
    # an Insert whose effect a later event on the same object depends on (not one overwritten by a Clone / Adopt)
    i = next(i for i, x in enumerate(c) if x["ev"] == "Insert" and x["res"]["kind"] == "Inserted" and x["post"]["nv"] >= 2
             and i + 1 < len(c) and c[i + 1]["ev"] == "Insert" and c[i + 1]["obj"] == x["obj"])
    del c[i]
demo("Trace_API: remove one Insert event", "Trace_API", case, drop_event)
def move_vertex(c):
    e = [x for x in c if x["ev"] == "Insert" and x["res"]["kind"] == "Inserted" and len(x["post"]["cells"]) > 2][-1]
    e["post"]["verts"][0]["m"][0] += 1
demo("Trace_API: move an old vertex by one unit", "Trace_API", case, move_vertex)

# ---- Trace_API + LocateWalk mechanism
evs = drive("queries", os.path.join(W, "q.ndjson"), part="0/10")
def walked(e):
    return e["ev"] == "Locate" and any(r["steps"] >= 2 and not r["scan"] for it in e["res"]["qs"] for r in it["rs"])
case = first_accepted_case(evs, "Trace_API", walked)
def one_more_step(c):
    e = [x for x in c if walked(x)][0]
    r = next(r for it in e["res"]["qs"] for r in it["rs"] if r["steps"] >= 2 and not r["scan"])
    r["steps"] += 1
demo("Trace_API+LocateWalk: one more walk step", "Trace_API", case, one_more_step)
def other_start(c):
    e = [x for x in c if walked(x)][0]
    r = next(r for it in e["res"]["qs"] for r in it["rs"] if r["steps"] >= 2 and not r["scan"])
    r["start"] = r["cell"] if r["cell"] else e["args"]["order"][-1]
demo("Trace_API+LocateWalk: walk started elsewhere", "Trace_API", case, other_start)

def has_region(e):
    return e["ev"] == "Conflict" and any(it["kind"] == "Ok" and len(it["cells"]) >= 2 for it in e["res"]["qs"])
case = first_accepted_case(evs, "Trace_API", has_region)
def shrink_region(c):
    e = [x for x in c if has_region(x)][0]
    it = next(it for it in e["res"]["qs"] if it["kind"] == "Ok" and len(it["cells"]) >= 2)
    it["cells"].pop()
demo("Trace_API: conflict region misses a cell", "Trace_API", case, shrink_region)

# ---- Trace_Pure
evs = drive("predicates", os.path.join(W, "pred.ndjson"), part="0/20")
pe = next(e for e in evs if e["ev"] == "Pred" and e["args"]["s"] == 0 and e["res"]["rows"][0]["fo"] != 0)
demo("Trace_Pure: flip one orientation sign", "Trace_Pure", [pe], lambda c: c[0]["res"]["rows"][0].__setitem__("ro", -c[0]["res"]["rows"][0]["ro"]))
evs = drive("orderings", os.path.join(W, "ord.ndjson"), part="0/2")
he = next(e for e in evs if e["ev"] == "Hilbert" and len(e["res"]["table"]) >= 16)
def swap_table(c):
    t = c[0]["res"]["table"]; t[0], t[5] = t[5], t[0]
demo("Trace_Pure: swap two Hilbert indices", "Trace_Pure", [he], swap_table)
de = next(e for e in evs if e["ev"] == "Dedup" and any(len(o["out"]) < len(e["args"]["input"]) for o in e["res"]["outs"]))
def resurrect(c):
    e = c[0]; ids = [x["id"] for x in e["args"]["input"]]
    o = next(o for o in e["res"]["outs"] if len(o["out"]) < len(ids))
    o["out"].append(next(i for i in ids if i not in o["out"]))
demo("Trace_Pure: keep a vertex dedup dropped", "Trace_Pure", [de], resurrect)

# ---- Trace_FlipRepair
evs = drive("repairtrace", os.path.join(W, "rt.ndjson"), part="0/8")
re_ = next(e for e in evs if e["kind"] == "Ok" and len(e["steps"]) >= 1)
demo("Trace_FlipRepair: drop the last recorded flip", "Trace_FlipRepair", [re_], lambda c: c[0]["steps"].pop())
def wrong_face(c):
    s = c[0]["steps"][0]; s["A"], s["B"] = s["B"], s["A"]
demo("Trace_FlipRepair: exchange removed and inserted face", "Trace_FlipRepair", [re_], wrong_face)

# ---- Trace_Caches
hist = os.path.join(W, "h.ndjson")
open(hist, "w").write(json.dumps([{"op": "Construct", "o": 1}, {"op": "Insert", "o": 1, "p": 1}, {"op": "FlipK1Insert", "o": 1, "p": 2},
                                  {"op": "Insert", "o": 1, "p": 2}, {"op": "Remove", "o": 1, "p": 1}, {"op": "HullCreate", "o": 1},
                                  {"op": "HullQuery", "o": 1}, {"op": "Insert", "o": 1, "p": 3}, {"op": "HullQuery", "o": 1}]) + "\n")
subprocess.run([VD, "caches", "--hist", hist, "--out", os.path.join(W, "c.ndjson")], check=True, stdout=subprocess.DEVNULL)
cev = [json.loads(l) for l in open(os.path.join(W, "c.ndjson"))]
def forget_key(c):
    e = [x for x in c if x["ev"] == "Cache" and x["args"]["op"] == "Insert" and x["args"]["res"] == "Inserted"][0]
    e["post"]["1"]["ikeys"] = []
demo("Trace_Caches: index update not observed", "Trace_Caches", cev, forget_key)
def fresh_after_change(c):
    e = [x for x in c if x["ev"] == "Cache" and x["args"]["op"] == "HullQuery"][-1]
    e["args"]["res"] = "Fresh"
demo("Trace_Caches: hull answers after a change", "Trace_Caches", cev, fresh_after_change)

# ---- Trace_InsertTxn (scripts generated by TLC from InsertTxn.tla)
scripts = os.path.join(W, "scripts.ndjson")
open(scripts, "w").write("\n".join(json.dumps(s) for s in [
    {"cfg": {"cells": True, "check": "EveryN", "maxPert": 1, "n": 1, "repair": "Never", "snapUsesNext": True}, "count0": 3, "choices": ["fR", "ok", "fail"]},
    {"cfg": {"cells": True, "check": "EndOnly", "maxPert": 1, "n": 1, "repair": "Every", "snapUsesNext": True}, "count0": 4, "choices": ["ok", "ok"]},
]) + "\n")
subprocess.run([VD, "inserttxn", "--hist", scripts, "--part", "0/1", "--out", os.path.join(W, "t.ndjson")], check=True, stdout=subprocess.DEVNULL)
tev = [json.loads(l) for l in open(os.path.join(W, "t.ndjson"))]
demo("Trace_InsertTxn: failed call left a change", "Trace_InsertTxn", [tev[0]], lambda c: c[0]["res"].__setitem__("changed", True))
demo("Trace_InsertTxn: count not advanced on commit", "Trace_InsertTxn", [tev[1]], lambda c: c[0]["res"].__setitem__("dcount", 0))
demo("Trace_InsertTxn: an attempt not observed", "Trace_InsertTxn", [tev[0]], lambda c: c[0]["res"].__setitem__("sites", c[0]["res"]["sites"][:2]))

# ---- Trace_RemoveTxn
open(scripts, "w").write(json.dumps({"cfg": {"repair": "On", "cells": True, "atomic": False}, "choices": ["k1no", "ok", "fail"], "outcome": "Err",
                                     "sites": ["tri.remove.after_fill", "tri.remove.after_remove_cells"], "has": True, "changed": False}) + "\n")
subprocess.run([VD, "removetxn", "--hist", scripts, "--part", "0/1", "--out", os.path.join(W, "r.ndjson")], check=True, stdout=subprocess.DEVNULL)
rev = [json.loads(l) for l in open(os.path.join(W, "r.ndjson"))]
demo("Trace_RemoveTxn: failed removal lost the vertex", "Trace_RemoveTxn", [rev[0]], lambda c: c[0]["res"].__setitem__("has", False))
demo("Trace_RemoveTxn: a removal step not observed", "Trace_RemoveTxn", [rev[0]], lambda c: c[0]["res"].__setitem__("sites", c[0]["res"]["sites"][:1]))

# ---- Trace_FlipTxn
open(scripts, "w").write(json.dumps({"cfg": {"kind": "k1ins", "atomic": False, "ctxclean": True}, "choices": ["bad"], "outcome": "Err", "sites": [], "changed": False}) + "\n"
                         + json.dumps({"cfg": {"kind": "k2", "atomic": False, "ctxclean": True}, "choices": ["ok", "ok", "ok", "ok"], "outcome": "Ok",
                                       "sites": ["flip.after_insert_cells", "flip.after_wire", "flip.after_remove_cells"], "changed": True}) + "\n")
subprocess.run([VD, "fliptxn", "--hist", scripts, "--part", "0/1", "--out", os.path.join(W, "f.ndjson")], check=True, stdout=subprocess.DEVNULL)
fev = [json.loads(l) for l in open(os.path.join(W, "f.ndjson"))]
fbad = [e for e in fev if e["args"]["script"]["choices"] == ["bad"]][0]
fok = [e for e in fev if e["args"]["script"]["choices"] != ["bad"]][0]
demo("Trace_FlipTxn: refused k=1 insertion left its vertex (pre-F-M behaviour)", "Trace_FlipTxn", [fbad],
     lambda c: c[0]["res"].update({"changed": True, "valid": False, "watch_in": True}))
demo("Trace_FlipTxn: committed flip kept an old cell", "Trace_FlipTxn", [fok], lambda c: c[0]["res"].__setitem__("old_in", True))
demo("Trace_FlipTxn: hull still fresh after a committed flip", "Trace_FlipTxn", [fok], lambda c: c[0]["res"].__setitem__("hull_stale", False))
demo("Trace_FlipTxn: a flip step not observed", "Trace_FlipTxn", [fok], lambda c: c[0]["res"].__setitem__("sites", c[0]["res"]["sites"][:2]))

bad = [r for r in results if not (r[1] and r[2])]
print("selftest:", "OK" if not bad else "FAILED %s" % bad)
sys.exit(0 if not bad else 1)
