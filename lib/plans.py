"""
Per-property verification plans and their executor.

A plan is a dict:
  level        : evidence level claimed
  families     : list of (driver family, parts quick, parts thorough) whose traces are validated
                 against spec/Trace_API.tla
  models       : list of (module, cfg, workers, timeout) TLC model-checking runs (spec/MC_*.tla)
  rule         : how cases are generated and what makes one distinct / non-trivial
  nontrivial   : function(event dict) -> key or None (distinct non-trivial cases are counted by key)
"""
import os, json, subprocess, time, re
from concurrent.futures import ThreadPoolExecutor

# which property owns a failing *level* conjunct (L1/L2/L3/EMB) by event kind
LEVEL_OWNER = {"Construct": "C01", "Insert": "C02", "Remove": "C06", "Flip": "C07", "Repair": "C08"}


class Ctx:
    def __init__(self, **kw):
        self.__dict__.update(kw)


def _key_construct(e):
    if e["ev"] == "Construct" and e["res"].get("kind") == "Ok":
        a = e["args"]
        return ("construct", a["D"], a["kernel"], a["profile"], a["ctor"], a["g"], a["opts"],
                tuple(tuple(v["m"]) for v in a["input"]))
    return None


def _key_event(kinds, ok_only=True):
    def f(e):
        if e["ev"] in kinds:
            r = e.get("res", {})
            if ok_only and r.get("kind") not in ("Ok", "Inserted"):
                return None
            return (e["ev"], json.dumps(e.get("args"), sort_keys=True), e.get("tag"))
        return None
    return f


def _key_any(kinds):
    return _key_event(kinds, ok_only=False)


PLANS = {
    "C01": dict(level="model_checking", families=[("construct", 14, 16)],
                rule="every subset (>=3 points) of the 3x3 grid and (>=4 points) of the unit cube, plus seeded "
                     "lattice samples D=2..5 (general position / random / degenerate / clustered / hypercube), "
                     "crossed round-robin with ctor x guarantee x ordering x dedup x simplex x retry x kernel, both "
                     "build profiles; distinct non-trivial = distinct (D,kernel,profile,ctor,guarantee,options,point "
                     "list) whose construction returned Ok and whose result passed the full TLA+ oracle",
                nontrivial=_key_construct),
    "C02": dict(level="model_checking", families=[("insert", 14, 16)],
                rule="seeded insertion histories (empty or constructed start; random/degenerate/collinear-prefix/"
                     "general-position lattice points; duplicates, reused uuids; policy changes mid-history), "
                     "D=2..5, both kernels, both profiles; distinct non-trivial = distinct Insert events that "
                     "reported Inserted (args+history tag)",
                nontrivial=_key_event({"Insert"})),
    "C04": dict(level="model_checking", families=[("repair", 14, 16), ("construct", 6, 16)],
                rule="Verdicts events on constructed, incrementally built, flipped-away and post-removal states; "
                     "distinct non-trivial = distinct Verdicts events (history tag + position)",
                nontrivial=None),
    "C06": dict(level="model_checking", families=[("remove", 14, 16)],
                rule="removal of randomly chosen vertices down to the empty triangulation, unknown vertices, "
                     "re-insertion of removed positions; distinct non-trivial = distinct successful Remove events",
                nontrivial=_key_event({"Remove"})),
    "C07": dict(level="model_checking", families=[("flips", 14, 16)],
                rule="shuffled enumeration of every facet/ridge/edge/triangle/cell/vertex handle position "
                     "(incl. out-of-range, i=j, stale, foreign) each followed by its inverse; distinct non-trivial = "
                     "distinct successful Flip events",
                nontrivial=_key_event({"Flip"})),
    "C08": dict(level="model_checking", families=[("repair", 14, 16)],
                rule="repair (both entry points, seeded/unseeded heuristic) from flip walks, inserts and removals "
                     "with repair disabled; distinct non-trivial = distinct successful Repair events",
                nontrivial=_key_event({"Repair"})),
    "C03": dict(level="fault_enumeration", families=[("remove", 8, 16), ("insert", 8, 16), ("flips", 8, 16), ("repair", 8, 16)],
                rule="every mutating call that returned Err or Skipped in the insert/remove/flip/repair histories "
                     "(natural failures: duplicates, reused uuids, degenerate points, non-flippable / boundary / "
                     "out-of-range / stale / foreign handles, repair failures); distinct non-trivial = distinct "
                     "failed mutating events (kind, args, history tag)",
                nontrivial=lambda e: ((e["ev"], json.dumps(e.get("args"), sort_keys=True), e.get("tag"))
                                      if e["ev"] in ("Insert", "Remove", "Flip", "Repair")
                                      and e.get("res", {}).get("kind") in ("Err", "Skipped") else None)),
}


def _run(cmd, **kw):
    return subprocess.run(cmd, stdout=subprocess.PIPE, stderr=subprocess.STDOUT, text=True, **kw)


def drive_family(ctx, fam, nparts, extra_args=None):
    """run the driver family in nparts processes (even parts debug profile, odd parts release)"""
    tdir = os.path.join(ctx.wdir, "traces")
    jobs = []
    for k in range(nparts):
        prof = "debug" if k % 2 == 0 else "release"
        out = os.path.join(tdir, "%s_%02d_%s.ndjson" % (fam, k, prof))
        cmd = [ctx.vdrive(prof), fam, "--tier", ctx.tier, "--seed", str(ctx.seed), "--part", "%d/%d" % (k, nparts),
               "--out", out] + (extra_args or [])
        jobs.append((cmd, out))
    res = []
    with ThreadPoolExecutor(max_workers=ctx.ncpu) as ex:
        futs = [(ex.submit(_run, c, timeout=3600), c, o) for c, o in jobs]
        for f, c, o in futs:
            try:
                r = f.result()
            except subprocess.TimeoutExpired:
                return None, "driver timeout: " + " ".join(c)
            # exit 3 = watchdog fired: the trace ends in a Timeout event (a C19 matter, decided by TLC)
            if r.returncode not in (0, 3):
                return None, "driver failed (%d): %s\n%s" % (r.returncode, " ".join(c), r.stdout[-2000:])
            res.append(o)
    return res, None


def execute(plan, ctx):
    cov = {"states": 0, "transitions": 0, "traces_validated_against_impl": 0, "evaluations": 0,
           "distinct_nontrivial": 0, "rule": plan.get("rule", ""), "samples": [], "events_by_kind": {},
           "model_runs": [], "exhaustive": False,
           "bounds": "lattice coordinates 0..15 (2-D), 0..7 (3-D), 0..3 (4-D), 0..2 (5-D); <= 12/10/8/8 vertices"}
    result = {"rejections": [], "coverage": cov, "direct_violations": []}
    thorough = ctx.tier == "thorough"

    # 1. model-level runs
    for m in plan.get("models", []):
        r = m(ctx, cov)
        if r.get("tool_error"):
            return {"tool_error": r["tool_error"]}
        result["direct_violations"] += r.get("violations", [])

    # 2. drivers -> traces -> TLC
    traces = []
    for fam, nq, nt in plan.get("families", []):
        n = nt if thorough else nq
        t0 = time.time()
        outs, err = drive_family(ctx, fam, n)
        if err:
            return {"tool_error": err}
        ctx.log("drove %s: %d traces in %.1fs" % (fam, len(outs), time.time() - t0))
        traces += outs
    for hook in plan.get("extra_drivers", []):
        outs, err = hook(ctx)
        if err:
            return {"tool_error": err}
        traces += outs
    traces = [t for t in traces if os.path.getsize(t) > 0]
    t0 = time.time()
    module = plan.get("trace_module", "Trace_API")
    with ThreadPoolExecutor(max_workers=max(2, ctx.ncpu - 2)) as ex:
        outs = list(ex.map(lambda t: ctx.validate_trace(t, module), traces))
    ctx.log("validated %d traces with TLC in %.1fs" % (len(traces), time.time() - t0))
    keys = set()
    nontrivial = plan.get("nontrivial")
    for t, o in zip(traces, outs):
        if o["tool_error"]:
            return {"tool_error": o["tool_error"]}
        cov["states"] += o["states"]
        cov["transitions"] += max(0, o["states"] - 1)
        cov["traces_validated_against_impl"] += o["cases"]
        cov["evaluations"] += o["events"]
        result["rejections"] += o["rejections"]
        with open(t) as f:
            for n, line in enumerate(f):
                e = json.loads(line)
                cov["events_by_kind"][e["ev"]] = cov["events_by_kind"].get(e["ev"], 0) + 1
                rk = e.get("res", {}).get("kind")
                if rk:
                    k2 = e["ev"] + ":" + rk
                    cov["events_by_kind"][k2] = cov["events_by_kind"].get(k2, 0) + 1
                key = nontrivial(e) if nontrivial else ((e["ev"], e["tag"], n) if e["ev"] == "Verdicts" else None)
                if key is not None:
                    if key not in keys and len(cov["samples"]) < 3:
                        s = {k: e[k] for k in ("ev", "tag", "args", "res") if k in e}
                        cov["samples"].append(json.loads(json.dumps(s)[:1500]) if len(json.dumps(s)) < 1500 else
                                              {"ev": e["ev"], "tag": e["tag"], "res": e.get("res")})
                    keys.add(key)
    cov["distinct_nontrivial"] = len(keys)
    if not cov["samples"]:
        cov["samples"].append({"note": "no non-trivial case in this run"})
    return result
