"""
Per-property verification plans and their executor.

A plan is a dict:
  level        : evidence level claimed
  families     : list of (driver family, parts quick, parts thorough) whose traces are validated
                 against spec/Trace_API.tla
  models       : list of (module, cfg, workers, timeout) TLC model-checking runs (spec/MC_*.tla)
  rule         : how cases are generated and what makes one distinct / non-trivial
  nontrivial   : function(event dict) -> key or None (distinct non-trivial cases are counted by key)
"""
import os, json, subprocess, time, re, shutil
from concurrent.futures import ThreadPoolExecutor

# which property owns a failing *level* conjunct (L1/L2/L3/EMB) by event kind
LEVEL_OWNER = {"Construct": "C01", "Insert": "C02", "InsertCopy": "C02", "Remove": "C06", "Flip": "C07", "Repair": "C08"}


class Ctx:
    def __init__(self, **kw):
        self.__dict__.update(kw)


def _key_construct(e):
    if e["ev"] == "Construct" and e["res"].get("kind") == "Ok":
        a = e["args"]
        return ("construct", a["D"], a["kernel"], a["profile"], a["ctor"], a["g"], a["opts"],
                tuple(tuple(v["m"]) for v in a["input"]))
    return None


def _key_event(kinds, ok_only=True):
    def f(e):
        if e["ev"] in kinds:
            r = e.get("res", {})
            if ok_only and r.get("kind") not in ("Ok", "Inserted"):
                return None
            return (e["ev"], json.dumps(e.get("args"), sort_keys=True), e.get("tag"))
        return None
    return f


def _key_any(kinds):
    return _key_event(kinds, ok_only=False)


RE_HIST = re.compile(r'<<"HIST", "(.*)">>')
RE_MC_STATES = re.compile(r"(\d+) states generated, (\d+) distinct states found")


def edit_invalidates():
    """which Edit-API cache semantics the code under test has is a CONSTANT of the model; it is
    fixed in spec/Trace_Caches.cfg (the value that matches the repository as repaired)"""
    txt = open(os.path.join(os.path.dirname(os.path.dirname(os.path.abspath(__file__))), "spec", "Trace_Caches.cfg")).read()
    return "EDIT_INVALIDATES = TRUE" in txt


def stage_mc(module, cfg, workers=8, timeout=1500, expect_violation=None, label=None):
    """a TLC model-checking run of a mechanism model; states are added to the evidence"""
    def run(ctx, cov):
        t0 = time.time()
        meta = os.path.join(ctx.wdir, "mc_" + cfg.replace(".cfg", ""))
        rc, txt = ctx.run_tlc(module, cfg, meta, workers=workers, timeout=timeout, xmx="6g", extra=["-coverage", "1"])
        if rc is None:
            return {"tool_error": "TLC timeout in %s/%s" % (module, cfg)}
        m = RE_MC_STATES.findall(txt)
        gen_s, dist = (int(m[-1][0]), int(m[-1][1])) if m else (0, 0)
        viol = (re.findall(r"Error: Invariant (\w+) is violated", txt) + re.findall(r"Temporal property (\w+) was violated", txt)
                + re.findall(r"Error: (Temporal properties were violated)", txt))
        ok = "Model checking completed. No error has been found." in txt
        cov["states"] += dist
        cov["transitions"] += gen_s
        # vacuity guard: every action of the model must have been taken at least once
        never = re.findall(r"<(\w+) line \d+, col \d+ to line \d+, col \d+ of module \w+>: 0:0", txt)
        cov["model_runs"].append({"module": module, "cfg": cfg, "distinct_states": dist, "states_generated": gen_s,
                                  "violated": viol, "actions_never_taken": never, "wall_s": round(time.time() - t0, 1)})
        ctx.log("MC %s/%s: %d distinct states, violated=%s in %.1fs" % (module, cfg, dist, viol, time.time() - t0))
        out = {"violations": []}
        if expect_violation is not None:
            if not viol or viol[0] not in expect_violation:
                return {"tool_error": "model %s/%s was expected to exhibit %s (design counterexample) but did not:\n%s"
                        % (module, cfg, expect_violation, txt[-1500:])}
            return out
        if not ok:
            if viol:
                rp = os.path.join(ctx.wdir, "replays", "%s_%s.tlc.txt" % (module, cfg))
                open(rp, "w").write(txt[-20000:])
                out["violations"].append({"replay": rp, "what": "model %s/%s violates %s" % (module, cfg, viol)})
                return out
            return {"tool_error": "TLC failed in %s/%s:\n%s" % (module, cfg, txt[-3000:])}
        if never:
            return {"tool_error": "vacuity: actions never taken in %s/%s: %s" % (module, cfg, never)}
        return out
    return run


LOCATE_MC = [stage_mc("MC_LocateWalk.tla", "MC_LocateWalk_gp6.cfg", workers=2),
             stage_mc("MC_LocateWalk.tla", "MC_LocateWalk_gp7.cfg", workers=2),
             stage_mc("MC_LocateWalk.tla", "MC_LocateWalk_3d.cfg", workers=4),
             stage_mc("MC_LocateWalk.tla", "MC_LocateWalk_pinwheel.cfg", workers=4),
             stage_mc("MC_LocateWalk.tla", "MC_LocateWalk_steplimit.cfg", workers=4),
             stage_mc("MC_LocateWalk.tla", "MC_LocateWalk_pinwheel_cycles.cfg", workers=2, expect_violation=["NoScan"]),
             stage_mc("MC_LocateWalk.tla", "MC_LocateWalk_notch.cfg", workers=2, expect_violation=["Complete"])]


def stage_sim(module, cfg, num, depth, workers=6):
    """TLC simulation mode: long random behaviours of a mechanism model far beyond the exhaustive bound (thorough tier)"""
    def run(ctx, cov):
        if ctx.tier != "thorough":
            return {}
        t0 = time.time()
        meta = os.path.join(ctx.wdir, "sim_" + cfg.replace(".cfg", ""))
        rc, txt = ctx.run_tlc(module, cfg, meta, workers=workers, timeout=1500, xmx="4g",
                              extra=["-simulate", "num=%d" % num, "-depth", str(depth), "-seed", str(1000 + ctx.seed)])
        if rc is None:
            return {"tool_error": "TLC simulation timeout in %s/%s" % (module, cfg)}
        viol = re.findall(r"Error: Invariant (\w+) is violated", txt) + re.findall(r"Temporal property (\w+) was violated", txt)
        m = re.search(r"The number of states generated: (\d+)", txt)
        tl = re.search(r"(\d+) traces generated \(trace length: mean=(\d+)", txt)
        n = int(m.group(1)) if m else 0
        cov["transitions"] += n
        cov["model_runs"].append({"module": module, "cfg": cfg, "mode": "simulation", "states_checked": n,
                                  "traces": int(tl.group(1)) if tl else 0, "mean_length": int(tl.group(2)) if tl else 0,
                                  "violated": viol, "wall_s": round(time.time() - t0, 1)})
        ctx.log("SIM %s/%s: %d states checked, violated=%s in %.1fs" % (module, cfg, n, viol, time.time() - t0))
        if viol:
            rp = os.path.join(ctx.wdir, "replays", "%s_%s.sim.txt" % (module, cfg))
            open(rp, "w").write(txt[-20000:])
            return {"violations": [{"replay": rp, "what": "simulation of %s/%s violates %s" % (module, cfg, viol)}]}
        if n == 0 or "Error:" in txt:
            return {"tool_error": "TLC simulation failed in %s/%s:\n%s" % (module, cfg, txt[-2000:])}
        return {}
    return run


def stage_caches(ctx, cov):
    """Gen_Caches -> histories -> vdrive caches -> Trace_Caches"""
    import random
    thorough = ctx.tier == "thorough"
    depth = 5 if thorough else 4
    cfgp = os.path.join(ctx.wdir, "Gen_Caches_run.cfg")
    base = open(os.path.join(ctx.spec, "Gen_Caches.cfg")).read()
    base = re.sub(r"MaxDepth = \d+", "MaxDepth = %d" % depth, base)
    base = re.sub(r"EDIT_INVALIDATES = \w+", "EDIT_INVALIDATES = %s" % ("TRUE" if edit_invalidates() else "FALSE"), base)
    open(cfgp, "w").write(base)
    t0 = time.time()
    rc, txt = ctx.run_tlc("Gen_Caches.tla", cfgp, os.path.join(ctx.wdir, "gen_meta"), workers=4, timeout=1500, xmx="6g")
    if rc is None or "Model checking completed" not in txt:
        return {"tool_error": "Gen_Caches failed:\n" + (txt or "")[-2000:]}
    m = RE_MC_STATES.findall(txt)
    if m:
        cov["states"] += int(m[-1][1])
        cov["transitions"] += int(m[-1][0])
    hs = set()
    for line in txt.split("\n"):
        mm = RE_HIST.match(line.strip())
        if mm:
            hs.add(mm.group(1).encode().decode("unicode_escape"))
    by_len = {}
    for h in hs:
        by_len.setdefault(len(json.loads(h)), []).append(h)
    rnd = random.Random(ctx.seed)
    chosen = []
    for L in sorted(by_len):
        xs = sorted(by_len[L])
        if L < depth:
            continue                      # prefixes of longer histories
        if L == depth:
            chosen += xs
        else:                             # one step beyond the bound: a seeded sample
            rnd.shuffle(xs)
            chosen += xs[: (20000 if thorough else 2500)]
    # Transition coverage for calls that change nothing in the model (refusals: a duplicate insertion, removal of an
    # absent vertex, a hull query): the generator prints one history per distinct model STATE, reached by a shortest
    # path, so such calls never END a generated history. Every state history (all lengths below the bound; a sample at
    # the bound) is extended by each insertion probe, a removal probe and a hull probe on object 1.
    probes = [{"op": "Insert", "o": 1, "p": 1}, {"op": "InsertStats", "o": 1, "p": 2}, {"op": "Insert", "o": 1, "p": 2},
              {"op": "Remove", "o": 1, "p": 1}]
    base = []
    for L in sorted(by_len):
        xs = sorted(by_len[L])
        if L < depth:
            base += xs
        elif L == depth:
            ys = list(xs)
            rnd.shuffle(ys)
            base += ys if thorough else ys[:400]
    ext = []
    for h in base:
        hl = json.loads(h)
        if not any(x.get("op") == "Construct" and x.get("o") == 1 for x in hl):
            continue
        for pr in probes:
            ext.append(json.dumps(hl + [pr] + ([{"op": "Insert", "o": 1, "p": pr["p"]}] if pr["op"] != "Remove" else [])))
    cov["probe_extended_histories"] = len(ext)
    chosen += ext
    ctx.log("Gen_Caches: %d histories (%s) in %.1fs" % (len(chosen), {k: len(v) for k, v in by_len.items()}, time.time() - t0))
    cov["generated_histories"] = len(chosen)
    hist = os.path.join(ctx.wdir, "histories.ndjson")
    open(hist, "w").write("\n".join(chosen) + "\n")
    outs, err = drive_family(ctx, "caches", 14, ["--hist", hist, "--dim", "2"])
    if err:
        return {"tool_error": err}
    return {"traces": [(o, "Trace_Caches") for o in outs]}


RE_VEC = re.compile(r'<<"VEC", "(.*)">>')


def stage_measures(ctx, cov):
    """Gen_Measures (TLC enumerates simplices with their exact ingredients) -> vdrive measures -> Trace_Pure"""
    thorough = ctx.tier == "thorough"
    cfgp = os.path.join(ctx.wdir, "Gen_Measures_run.cfg")
    base = open(os.path.join(ctx.spec, "Gen_Measures.cfg")).read()
    if thorough:
        base = base.replace("G2 = 4", "G2 = 5").replace("G3 = 2", "G3 = 3").replace("Stride = 3", "Stride = 1")
    open(cfgp, "w").write(base)
    t0 = time.time()
    rc, txt = ctx.run_tlc("Gen_Measures.tla", cfgp, os.path.join(ctx.wdir, "genm_meta"), workers=1, timeout=1500, xmx="4g")
    if rc is None or "Model checking completed" not in txt:
        return {"tool_error": "Gen_Measures failed:\n" + (txt or "")[-2000:]}
    vecs = []
    for line in txt.split("\n"):
        mm = RE_VEC.match(line.strip())
        if mm:
            vecs.append(mm.group(1).encode().decode("unicode_escape"))
    vecs = sorted(set(vecs))
    cov["generated_vectors"] = len(vecs)
    cov["exhaustive"] = True
    ctx.log("Gen_Measures: %d simplices with exact ingredients in %.1fs" % (len(vecs), time.time() - t0))
    vf = os.path.join(ctx.wdir, "vectors.ndjson")
    open(vf, "w").write("\n".join(vecs) + "\n")
    outs, err = drive_family(ctx, "measures", 14, ["--hist", vf])
    if err:
        return {"tool_error": err}
    return {"traces": [(o, "Trace_Pure") for o in outs]}


RE_REPLAY = re.compile(r'<<"REPLAY", "(.*)">>')


def stage_inserttxn(ctx, cov):
    """MC of the insertion-transaction model (as coded + the stale-count design counterexample), then every behaviour
    TLC generates replayed on the library through failpoint scripts and validated against the model"""
    for run in (stage_mc("InsertTxn.tla", "MC_InsertTxn.cfg", workers=2),
                stage_mc("InsertTxn.tla", "MC_InsertTxn_stale_count.cfg", workers=2, expect_violation=["AllOrNothing"])):
        r = run(ctx, cov)
        if r.get("tool_error") or r.get("violations"):
            return r
    thorough = ctx.tier == "thorough"
    cfgp = os.path.join(ctx.wdir, "Gen_InsertTxn_run.cfg")
    base = open(os.path.join(ctx.spec, "Gen_InsertTxn.cfg")).read()
    if thorough:
        base = base.replace("Counts = {0, 1, 3, 4}", "Counts = {0, 1, 2, 3, 4, 5}").replace("Ns = {1, 2}", "Ns = {1, 2, 3}")
    open(cfgp, "w").write(base)
    t0 = time.time()
    rc, txt = ctx.run_tlc("InsertTxn.tla", cfgp, os.path.join(ctx.wdir, "gentxn_meta"), workers=1, timeout=1500, xmx="4g")
    if rc is None or "Model checking completed" not in txt:
        return {"tool_error": "Gen_InsertTxn failed:\n" + (txt or "")[-2000:]}
    scripts = []
    for line in txt.split("\n"):
        mm = RE_REPLAY.match(line.strip())
        if mm:
            scripts.append(mm.group(1).encode().decode("unicode_escape"))
    scripts = sorted(set(scripts))
    cov["generated_scripts"] = len(scripts)
    ctx.log("Gen_InsertTxn: %d behaviours of the insertion transaction in %.1fs" % (len(scripts), time.time() - t0))
    sf = os.path.join(ctx.wdir, "txn_scripts.ndjson")
    open(sf, "w").write("\n".join(scripts) + "\n")
    outs, err = drive_family(ctx, "inserttxn", 6, ["--hist", sf])
    if err:
        return {"tool_error": err}
    return {"traces": [(o, "Trace_InsertTxn") for o in outs]}


def _apalache(ctx, module_path, init, inv, length, tag):
    out = os.path.join(ctx.wdir, "apalache", tag)
    cmd = ["apalache-mc", "check", "--init=" + init, "--inv=" + inv, "--length=%d" % length,
           "--out-dir=" + out, "--run-dir=" + os.path.join(out, "run"), module_path]
    try:
        r = subprocess.run(cmd, cwd=os.path.dirname(module_path), stdout=subprocess.PIPE, stderr=subprocess.STDOUT, text=True, timeout=1200)
    except subprocess.TimeoutExpired:
        return None, "timeout"
    txt = r.stdout
    if "The outcome is: NoError" in txt:
        return True, txt
    if "The outcome is: Error" in txt and "violated" in txt:
        return False, txt
    return None, txt


def stage_apalache_inserttxn(ctx, cov):
    """UNBOUNDED safety of the insertion transaction: IndInv of spec/Apa_InsertTxn.tla is inductive for arbitrary
    insertion counts and EveryN parameters (Apalache), implies AllOrNothing / Committed, is satisfiable in every control
    state (probes), and is NOT inductive for the stale-count variant."""
    t0 = time.time()
    mod = os.path.join(ctx.spec, "Apa_InsertTxn.tla")
    runs = [("Init", "IndInv", 0, True, "base"), ("IndInit", "IndInv", 1, True, "step"), ("IndInit", "Safety", 0, True, "safety"),
            ("IndInit", "NeverDoneInserted", 0, False, "probe1"), ("IndInit", "NeverFinishWithSnapshot", 0, False, "probe2"),
            ("IndInit", "NeverRepair", 0, False, "probe3")]
    res = []
    for init, inv, length, expect, tag in runs:
        ok, txt = _apalache(ctx, mod, init, inv, length, tag)
        if ok is None:
            return {"tool_error": "apalache %s/%s failed:\n%s" % (init, inv, txt[-1500:])}
        res.append({"init": init, "inv": inv, "length": length, "holds": ok})
        if ok != expect:
            if expect:
                rp = os.path.join(ctx.wdir, "replays", "apalache_%s.txt" % tag)
                open(rp, "w").write(txt[-20000:])
                return {"violations": [{"replay": rp, "what": "Apa_InsertTxn: %s does not hold from %s (length %d)" % (inv, init, length)}]}
            return {"tool_error": "vacuity: probe %s was expected to be violated from IndInit" % inv}
    # the stale-count variant (snapshot decision on the current count) must fail the inductive step
    stale_dir = os.path.join(ctx.wdir, "apalache", "stale_src")
    os.makedirs(stale_dir, exist_ok=True)
    for f in ("InsertTxnOps.tla",):
        shutil.copy(os.path.join(ctx.spec, f), stale_dir)
    src = open(mod).read().replace("MODULE Apa_InsertTxn", "MODULE Apa_InsertTxn_stale")
    src = src.replace("cfg.snapUsesNext = TRUE", "cfg.snapUsesNext = FALSE").replace("snapUsesNext : {TRUE}", "snapUsesNext : {FALSE}")
    src = src.replace("ShouldCheck(cfg, count0 + 1))\n", "ShouldCheck(cfg, count0))\n", 1)
    sm = os.path.join(stale_dir, "Apa_InsertTxn_stale.tla")
    open(sm, "w").write(src)
    ok, txt = _apalache(ctx, sm, "IndInit", "IndInv", 1, "stale")
    if ok is None:
        return {"tool_error": "apalache stale variant failed:\n%s" % txt[-1500:]}
    if ok:
        return {"tool_error": "the stale-count variant was expected NOT to be inductive (design counterexample) but Apalache proved it"}
    res.append({"init": "IndInit", "inv": "IndInv (stale-count variant)", "length": 1, "holds": False, "expected": False})
    cov["model_runs"].append({"module": "Apa_InsertTxn.tla", "tool": "apalache 0.58", "unbounded": True, "runs": res,
                              "wall_s": round(time.time() - t0, 1)})
    ctx.log("Apalache Apa_InsertTxn: inductive invariant (base, step, safety), 3 satisfiability probes, stale variant not inductive, in %.1fs"
            % (time.time() - t0))
    return {}


def stage_removetxn(ctx, cov):
    """MC of the removal-transaction model (atomic flips: AllOrNothing holds; as coded: the known non-atomic flip shows
    as a design counterexample), then every as-coded behaviour replayed through failpoint scripts"""
    for run in (stage_mc("RemoveTxn.tla", "MC_RemoveTxn_atomic.cfg", workers=1),
                stage_mc("RemoveTxn.tla", "MC_RemoveTxn_ascoded.cfg", workers=1, expect_violation=["AllOrNothing"])):
        r = run(ctx, cov)
        if r.get("tool_error") or r.get("violations"):
            return r
    rc, txt = ctx.run_tlc("RemoveTxn.tla", "Gen_RemoveTxn.cfg", os.path.join(ctx.wdir, "genrtxn_meta"), workers=1, timeout=900, xmx="2g")
    if rc is None or "Model checking completed" not in txt:
        return {"tool_error": "Gen_RemoveTxn failed:\n" + (txt or "")[-2000:]}
    scripts = sorted({mm.group(1).encode().decode("unicode_escape") for mm in (RE_REPLAY.match(l.strip()) for l in txt.split("\n")) if mm})
    cov["generated_scripts"] = cov.get("generated_scripts", 0) + len(scripts)
    sf = os.path.join(ctx.wdir, "rtxn_scripts.ndjson")
    open(sf, "w").write("\n".join(scripts) + "\n")
    outs, err = drive_family(ctx, "removetxn", 2, ["--hist", sf])
    if err:
        return {"tool_error": err}
    return {"traces": [(o, "Trace_RemoveTxn") for o in outs]}


def stage_fliptxn(ctx, cov):
    """MC of the flip-application transaction model (atomic: AllOrNothing holds; as coded: the known non-atomic
    application is the design counterexample; before fix F-M: a refused k=1 handle left the vertex behind), then every
    as-coded behaviour replayed through failpoint scripts on the Edit API"""
    for run in (stage_mc("FlipTxn.tla", "MC_FlipTxn_atomic.cfg", workers=1),
                stage_mc("FlipTxn.tla", "MC_FlipTxn_ascoded.cfg", workers=1, expect_violation=["AllOrNothing"]),
                stage_mc("FlipTxn.tla", "MC_FlipTxn_prefix.cfg", workers=1, expect_violation=["RefusedIsNoOp"])):
        r = run(ctx, cov)
        if r.get("tool_error") or r.get("violations"):
            return r
    rc, txt = ctx.run_tlc("FlipTxn.tla", "Gen_FlipTxn.cfg", os.path.join(ctx.wdir, "genftxn_meta"), workers=1, timeout=900, xmx="2g")
    if rc is None or "Model checking completed" not in txt:
        return {"tool_error": "Gen_FlipTxn failed:\n" + (txt or "")[-2000:]}
    scripts = sorted({mm.group(1).encode().decode("unicode_escape") for mm in (RE_REPLAY.match(l.strip()) for l in txt.split("\n")) if mm})
    cov["generated_scripts"] = cov.get("generated_scripts", 0) + len(scripts)
    sf = os.path.join(ctx.wdir, "ftxn_scripts.ndjson")
    open(sf, "w").write("\n".join(scripts) + "\n")
    outs, err = drive_family(ctx, "fliptxn", 2, ["--hist", sf])
    if err:
        return {"tool_error": err}
    return {"traces": [(o, "Trace_FlipTxn") for o in outs]}


def stage_family(ctx, fam, nparts, module, extra=None):
    outs, err = drive_family(ctx, fam, nparts, extra)
    if err:
        return {"tool_error": err}
    return {"traces": [(o, module) for o in outs]}


def _run(cmd, **kw):
    return subprocess.run(cmd, stdout=subprocess.PIPE, stderr=subprocess.STDOUT, text=True, **kw)


# Families whose events are (also) judged by conjuncts another property owns: the owner runs them as SECONDARY
# families - a share of the cases in the quick tier, all of them (one round) in the thorough tier - so that a
# rejection "attributed to another property" is reported by that property's own check and not only noted.
# which families emit events of which kind (the kinds whose contract conjuncts a property owns)
_EMITS = {
    "Construct": ["construct", "insert", "flips", "remove", "repair", "queries", "serde", "toroidal", "determinism", "failpoints", "faults"],
    "Insert": ["insert", "flips", "remove", "queries", "serde", "toroidal", "determinism", "failpoints"],
    "Verdicts": ["construct", "insert", "flips", "remove", "repair", "queries", "serde", "toroidal", "verdictwalk", "repairwalk"],
    "Remove": ["remove", "flips", "repair", "queries", "serde", "failpoints"],
    "InsertCopy": ["insert", "remove"],
    "Flip": ["flips", "repair", "queries", "serde", "failpoints", "verdictwalk", "repairwalk"],
    "Repair": ["repair", "queries", "serde", "failpoints", "verdictwalk", "repairwalk"],
}
SECONDARY = {"C01": _EMITS["Construct"], "C02": _EMITS["Insert"], "C04": _EMITS["Verdicts"], "C06": _EMITS["Remove"],
             "C07": _EMITS["Flip"], "C08": _EMITS["Repair"], "C09": _EMITS["InsertCopy"]}
STAGE_FAMILIES = {"C02": ["inserttxn"], "C03": ["inserttxn", "removetxn", "fliptxn"], "C06": ["removetxn"], "C07": ["fliptxn"], "C09": ["caches"], "C11": ["caches", "fliptxn", "removetxn"],
                  "C18": ["measures"], "C08": ["repairtrace"]}
SECONDARY_SHARE = 0.3
THOROUGH_ROUNDS = 3   # the thorough tier drives every family with this many seeds (seed, seed + 101, ...)


def drive_rounds(ctx, fam, nparts, share=1.0):
    """quick: one round with the seed (a `share` < 1 runs only that fraction of the parts: secondary families);
    thorough: THOROUGH_ROUNDS rounds with derived seeds, every part"""
    outs = []
    thorough = ctx.tier == "thorough"
    for rnd in range(THOROUGH_ROUNDS if thorough and share >= 1.0 else 1):
        o, err = drive_family(ctx, fam, nparts, seed=ctx.seed + 101 * rnd, suffix="" if rnd == 0 else "_r%d" % rnd,
                              only=None if thorough or share >= 1.0 else max(2, int(nparts * share + 0.5)))
        if err:
            return outs, err
        outs += o
    return outs, None


def drive_family(ctx, fam, nparts, extra_args=None, seed=None, suffix="", only=None):
    """run the driver family in nparts processes (even parts debug profile, odd parts release);
    only = run just the first `only` parts (a share of the cases)"""
    tdir = os.path.join(ctx.wdir, "traces")
    jobs = []
    seed = ctx.seed if seed is None else seed
    for k in range(nparts if only is None else min(only, nparts)):
        prof = "debug" if k % 2 == 0 else "release"
        out = os.path.join(tdir, "%s%s_%02d_%s.ndjson" % (fam, suffix, k, prof))
        cmd = [ctx.vdrive(prof), fam, "--tier", ctx.tier, "--seed", str(seed), "--part", "%d/%d" % (k, nparts),
               "--out", out] + (extra_args or [])
        jobs.append((cmd, out))
    res = []
    with ThreadPoolExecutor(max_workers=ctx.ncpu) as ex:
        futs = [(ex.submit(_run, c, timeout=3600), c, o) for c, o in jobs]
        for f, c, o in futs:
            try:
                r = f.result()
            except subprocess.TimeoutExpired:
                return None, "driver timeout: " + " ".join(c)
            # exit 3 = watchdog fired: the trace ends in a Timeout event (a C19 matter, decided by TLC)
            if r.returncode not in (0, 3):
                return None, "driver failed (%d): %s\n%s" % (r.returncode, " ".join(c), r.stdout[-2000:])
            res.append(o)
    return res, None


def families_of(pid):
    """every driver family the check of `pid` runs (primary, secondary, stage-driven)"""
    plan = PLANS.get(pid, {})
    fs = {x[0] for x in plan.get("families", [])} | {x[0] for x in plan.get("pure_families", [])} | set(SECONDARY.get(pid, []))
    fs |= set(STAGE_FAMILIES.get(pid, []))
    return fs


def execute(plan, ctx):
    cov = {"states": 0, "transitions": 0, "traces_validated_against_impl": 0, "evaluations": 0,
           "distinct_nontrivial": 0, "rule": plan.get("rule", ""), "samples": [], "events_by_kind": {},
           "model_runs": [], "exhaustive": False,
           "bounds": "lattice coordinates 0..15 (2-D), 0..7 (3-D), 0..3 (4-D), 0..2 (5-D); <= 12/10/8/8 vertices"}
    result = {"rejections": [], "coverage": cov, "direct_violations": []}
    thorough = ctx.tier == "thorough"
    cov["seed_rounds"] = [ctx.seed + 101 * k for k in range(THOROUGH_ROUNDS if thorough else 1)]

    # 1. model-level runs
    for m in plan.get("models", []):
        r = m(ctx, cov)
        if r.get("tool_error"):
            return {"tool_error": r["tool_error"]}
        result["direct_violations"] += r.get("violations", [])

    # 2. drivers -> traces -> TLC
    traces = []   # (path, trace module)
    fams = list(plan.get("families", [])) + [(f, 14, 16, SECONDARY_SHARE) for f in SECONDARY.get(ctx.pid, [])
                                              if f not in [x[0] for x in plan.get("families", [])]]
    for ent in fams:
        fam, nq, nt = ent[0], ent[1], ent[2]
        share = ent[3] if len(ent) > 3 else 1.0
        n = nt if thorough else nq
        t0 = time.time()
        outs, err = drive_rounds(ctx, fam, n, share)
        if err:
            return {"tool_error": err}
        ctx.log("drove %s: %d traces in %.1fs" % (fam, len(outs), time.time() - t0))
        traces += [(o, "Trace_API") for o in outs]
    for fam, nq, nt in plan.get("pure_families", []):
        n = nt if thorough else nq
        t0 = time.time()
        outs, err = drive_rounds(ctx, fam, n)
        if err:
            return {"tool_error": err}
        ctx.log("drove %s: %d traces in %.1fs" % (fam, len(outs), time.time() - t0))
        traces += [(o, "Trace_Pure") for o in outs]
    for stage in plan.get("stages", []):
        r = stage(ctx, cov)
        if r.get("tool_error"):
            return {"tool_error": r["tool_error"]}
        traces += r.get("traces", [])
        result["direct_violations"] += r.get("violations", [])
    traces = [t for t in traces if os.path.getsize(t[0]) > 0]
    t0 = time.time()
    with ThreadPoolExecutor(max_workers=max(2, ctx.ncpu - 2)) as ex:
        outs = list(ex.map(lambda t: ctx.validate_trace(t[0], t[1]), traces))
    ctx.log("validated %d traces with TLC in %.1fs" % (len(traces), time.time() - t0))
    traces = [t[0] for t in traces]
    keys = set()
    nontrivial = plan.get("nontrivial")
    for t, o in zip(traces, outs):
        if o["tool_error"]:
            return {"tool_error": o["tool_error"]}
        cov["states"] += o["states"]
        cov["transitions"] += max(0, o["states"] - 1)
        cov["traces_validated_against_impl"] += o["cases"]
        cov["evaluations"] += o["events"]
        result["rejections"] += o["rejections"]
        with open(t) as f:
            for n, line in enumerate(f):
                e = json.loads(line)
                cov["events_by_kind"][e["ev"]] = cov["events_by_kind"].get(e["ev"], 0) + 1
                rk = e.get("res", {}).get("kind")
                if rk:
                    k2 = e["ev"] + ":" + rk
                    cov["events_by_kind"][k2] = cov["events_by_kind"].get(k2, 0) + 1
                key = nontrivial(e) if nontrivial else ((e["ev"], e.get("tag"), n) if e["ev"] == "Verdicts" else None)
                ci = plan.get("count_items")
                if ci and e["ev"] == ci[0]:
                    for it in e.get("res", {}).get(ci[1], []):
                        keys.add((e.get("tag"), json.dumps(it.get("q"))))
                        if len(cov["samples"]) < 3:
                            cov["samples"].append({"ev": e["ev"], "tag": e.get("tag"), "item": it})
                if key is not None:
                    if key not in keys and len(cov["samples"]) < 3:
                        s = {k: e[k] for k in ("ev", "tag", "args", "res") if k in e}
                        cov["samples"].append(json.loads(json.dumps(s)[:1500]) if len(json.dumps(s)) < 1500 else
                                              {"ev": e["ev"], "tag": e["tag"], "res": e.get("res")})
                    keys.add(key)
    cov["distinct_nontrivial"] = len(keys)
    if plan.get("explanation"):
        cov["explanation"] = plan["explanation"]
    if not cov["samples"]:
        cov["samples"].append({"note": "no non-trivial case in this run"})
    return result


PLANS = {
    "C01": dict(level="model_checking", families=[("construct", 14, 16)],
                rule="every subset (>=3 points) of the 3x3 grid and (>=4 points) of the unit cube, plus seeded "
                     "lattice samples D=2..5 (general position / random / degenerate / clustered / hypercube), "
                     "crossed round-robin with ctor x guarantee x ordering x dedup x simplex x retry x kernel, both "
                     "build profiles; distinct non-trivial = distinct (D,kernel,profile,ctor,guarantee,options,point "
                     "list) whose construction returned Ok and whose result passed the full TLA+ oracle",
                nontrivial=_key_construct),
    "C02": dict(level="model_checking", families=[("insert", 14, 16)],
                stages=[stage_inserttxn, stage_apalache_inserttxn],
                rule="(i') UNBOUNDED: Apalache proves an inductive invariant of the insertion transaction for arbitrary insertion "
                     "counts and EveryN parameters (spec/Apa_InsertTxn.tla: base case, inductive step, invariant => AllOrNothing / "
                     "Committed; satisfiability probes; the stale-count variant is not inductive); (i) the insertion transaction model (spec/InsertTxn.tla: snapshot decision, attempts with rollback, "
                     "index / count / hint updates, scheduled repair and check, final restore) checked exhaustively over all "
                     "policies, counts and environment choices, with the stale-count variant as a design counterexample; every "
                     "generated behaviour replayed on the library through failpoint scripts and validated (Trace_InsertTxn); "
                     "(ii) seeded insertion histories (empty or constructed start; random/degenerate/collinear-prefix/"
                     "general-position lattice points; duplicates, reused uuids; policy changes mid-history), "
                     "D=2..5, both kernels, both profiles; distinct non-trivial = distinct Insert events that "
                     "reported Inserted (args+history tag)",
                nontrivial=_key_event({"Insert"})),
    "C04": dict(level="model_checking", families=[("verdictwalk", 14, 16), ("repair", 8, 16), ("construct", 6, 16)],
                rule="Verdicts events on constructed, incrementally built, flipped-away and post-removal states; "
                     "distinct non-trivial = distinct Verdicts events (history tag + position)",
                nontrivial=None),
    "C06": dict(level="model_checking", families=[("remove", 14, 16)],
                stages=[stage_removetxn],
                rule="(i) the removal transaction model RemoveTxn.tla checked and replayed through failpoint scripts (see C03); (ii) removal of randomly chosen vertices down to the empty triangulation, unknown vertices, "
                     "re-insertion of removed positions; distinct non-trivial = distinct successful Remove events",
                nontrivial=_key_event({"Remove"})),
    "C07": dict(level="model_checking", families=[("flips", 14, 16)],
                stages=[stage_fliptxn],
                rule="(o) the flip-application transaction model FlipTxn.tla (vertex / context / insert / wire / remove / normalise / compensation steps of one explicit flip; "
                     "Committed, NoOverlapNoHole, RefusedIsNoOp, StaleWhenChanged checked, AllOrNothing with an atomic application) and every behaviour replayed through failpoint scripts on "
                     "flip_k1_insert / flip_k2 / flip_k1_remove (Trace_FlipTxn); shuffled enumeration of every facet/ridge/edge/triangle/cell/vertex handle position "
                     "(incl. out-of-range, i=j, stale, foreign) each followed by its inverse; distinct non-trivial = "
                     "distinct successful Flip events",
                nontrivial=_key_event({"Flip"})),
    "C08": dict(level="model_checking", families=[("repairwalk", 14, 16), ("repair", 8, 16)],
                stages=[stage_mc("MC_FlipRepair.tla", "MC_FlipRepair_gp6.cfg", workers=4),
                        stage_mc("MC_FlipRepair.tla", "MC_FlipRepair_grid6.cfg", workers=4),
                        stage_mc("MC_FlipRepair.tla", "MC_FlipRepair_3d.cfg", workers=4),
                        stage_mc("MC_FlipRepair.tla", "MC_FlipRepair_gp6_ascoded.cfg", workers=4),
                        stage_mc("MC_FlipRepair.tla", "MC_FlipRepair_grid6_ascoded.cfg", workers=4),
                        # design counterexample kept alive: without a convexity test the 3-D repair can cycle
                        stage_mc("MC_FlipRepair.tla", "MC_FlipRepair_3d_ascoded_cycles.cfg", workers=4, expect_violation=["RepairTerminates"]),
                        lambda c, v: (stage_mc("MC_FlipRepair.tla", "MC_FlipRepair_gp7.cfg", workers=6)(c, v) if c.tier == "thorough" else {}),
                        lambda c, v: stage_family(c, "repairtrace", 14, "Trace_FlipRepair")],
                rule="repair (both entry points, seeded/unseeded heuristic) from flip walks, inserts and removals "
                     "with repair disabled; distinct non-trivial = distinct successful Repair events",
                nontrivial=_key_event({"Repair"})),
    "C05": dict(level="fault_enumeration", families=[("faults", 14, 16)],
                rule="for valid library-built triangulations (D=2..5, the three guarantees, 4-7 vertices) every single fault "
                     "of 17 classes at every site (cell x slot x slot / vertex) up to a cap per triangulation (seeded sample "
                     "above it), plus random PAIRS of faults on instances with <= 4 cells; faults are injected into a copy of "
                     "the Tds through cfg(delaunay_verif) raw accessors, the library's validators are asked, and TLC "
                     "recomputes Levels 1-3 from the raw projected slots. distinct non-trivial = distinct (triangulation, "
                     "applied fault list) with at least one fault applied",
                nontrivial=lambda e: ((e.get("tag"), json.dumps(e["args"].get("faults"))) if e["ev"] == "Faulted" and not e["args"].get("clean") else None)),
    "C19": dict(level="model_checking",
                families=[("extreme", 8, 16), ("insert", 4, 16), ("flips", 4, 16), ("remove", 4, 16), ("repair", 4, 16),
                          ("queries", 4, 16), ("construct", 4, 16), ("faults", 2, 8)],
                rule="every public call of every history of the other families (smaller share in the quick tier) plus an "
                     "adversarial family - lattice histories at scales 2^+-60..2^+-340, NaN / +inf / -inf at every entry "
                     "point (insert, insert_with_statistics, flip_k1_insert, locate, hull queries, batch construction), "
                     "mixed raw magnitudes 1e-300..1e300 - runs under catch_unwind and a watchdog (30 s quick / 120 s "
                     "thorough per call); no action of any trace specification accepts a panic or timeout event, work "
                     "counters are checked against the transcribed budgets (locate steps, repair flips, insertion attempts). "
                     "distinct non-trivial = distinct public calls executed (event lines)",
                nontrivial=lambda e: (e["ev"], e.get("tag"), json.dumps(e.get("args"), sort_keys=True)[:200]) if e["ev"] != "Reset" else None),
    "C09": dict(level="model_checking", families=[("insert", 8, 16)],
                stages=[lambda c, v: stage_mc("MC_Caches.tla", ("MC_Caches_fixed.cfg" if c.tier == "thorough" else "MC_Caches_fixed_quick.cfg") if edit_invalidates() else "MC_Caches_pinned.cfg",
                                              expect_violation=None if edit_invalidates() else ["IndexComplete", "NoDuplicateAccepted"])(c, v),
                        stage_sim("MC_Caches.tla", "MC_Caches_sim.cfg", 20000, 60),
                        stage_caches],
                rule="(i) exhaustive TLC check of the cache mechanism model (2 positions, 2 objects, depth 6), thorough tier: 80 000 random behaviours of depth 60 in TLC simulation mode; (ii) every "
                     "history TLC generates from that model up to the depth bound (plus a seeded sample one step beyond) "
                     "replayed on the real library with the spatial index observed through hooks after every call and "
                     "compared with the model (Trace_Caches); (iii) insertion histories with duplicates and reused uuids "
                     "(Trace_API). distinct non-trivial = distinct replayed histories / Insert events refused as duplicates",
                nontrivial=lambda e: (("hist", e.get("tag")) if e["ev"] == "Reset" and str(e.get("tag", "")).startswith("caches")
                                      else ((e["ev"], json.dumps(e.get("args"), sort_keys=True), e.get("tag"))
                                            if e["ev"] == "Insert" and e.get("res", {}).get("err") in ("DuplicateCoordinates", "DuplicateUuid") else None))),
    "C10": dict(level="model_checking", families=[("queries", 14, 16)],
                stages=LOCATE_MC,
                rule="(i) exhaustive TLC check of the facet-walk mechanism model (spec/LocateWalk.tla: 2-D and 3-D Delaunay "
                     "complexes, every lattice query in and around the hull, every hint; a pinwheel on which the walk cycles "
                     "and a step limit of 3, both answered through the scan; design counterexamples: the walk does cycle on a "
                     "non-Delaunay complex, and on a non-convex complex it reports Outside for a covered point); (ii) every "
                     "recorded locate call must be the run of that same walk (LocateWalkOps) on the recorded complex from the "
                     "recorded start cell - answer, step count and use of the fallback; (iii) for each corpus triangulation (constructed, then after insertions / a removal / flips+repair) every "
                     "lattice point of the bounding box extended by one unit (sampled above a cap) is located under every "
                     "hint: none, live cells, a stale key, a foreign key; both locate and locate_with_stats. distinct "
                     "non-trivial = distinct (history, query point) pairs",
                nontrivial=lambda e: None, count_items=("Locate", "qs")),
    "C11": dict(level="model_checking", families=[("queries", 14, 16)],
                stages=[lambda c, v: stage_mc("MC_Caches.tla", ("MC_Caches_fixed.cfg" if c.tier == "thorough" else "MC_Caches_fixed_quick.cfg"))(c, v),
                        stage_sim("MC_Caches.tla", "MC_Caches_sim.cfg", 20000, 60),
                        stage_caches, stage_fliptxn, stage_removetxn],
                rule="(i) HullFresh checked exhaustively on the cache/generation model; (ii) TLC-generated histories with "
                     "HullCreate/HullQuery replayed and compared with the model; (iii) hull creation on corpus "
                     "triangulations checked against Boundary(K) and exact visibility for every query point, then one "
                     "mutating call of each kind (failed insert, failed flip, mutation of a clone, successful insert / "
                     "remove / flip / repair / policy change) followed by queries. distinct non-trivial = distinct "
                     "(history, hull query point) pairs",
                nontrivial=lambda e: None, count_items=("HullQuery", "qs")),
    "C13": dict(level="model_checking", families=[("serde", 14, 16)],
                rule="serde_json round trip of the Tds of constructed / churned triangulations (vertex and cell data, key "
                     "gaps after removals, after flips), equality of the projection, then the same insertions and removal "
                     "on original and copy for general-position points with Compare events. distinct non-trivial = "
                     "distinct successful SerDe events",
                nontrivial=_key_event({"SerDe"})),
    "C15": dict(level="model_checking", families=[("queries", 14, 16)],
                rule="every topology / adjacency query (indexed and not) on corpus triangulations in each reachable state "
                     "class, compared by TLC with face enumeration of the logged cells; missing vertex and cell keys. "
                     "distinct non-trivial = distinct Queries events",
                nontrivial=_key_any({"Queries"})),
    "C12": dict(level="model_checking", pure_families=[("predicates", 14, 16)],
                rule="every (simplex, query) tuple on the 3x3 grid (2-D, exhaustive) and on the unit cube (3-D, exhaustive "
                     "in the thorough tier, 1/5 sample in quick), random lattice tuples D=2..5 incl. forced degenerate "
                     "and on-vertex queries, in three scale classes (2^0, moderate, extreme), each under all (D<=3) / 12 "
                     "sampled vertex permutations and all formulations (both kernels, simplex_orientation, "
                     "robust_orientation, insphere, insphere_lifted, insphere_distance, robust_insphere); TLC computes the "
                     "exact integer sign and the decidability band. distinct non-trivial = distinct (D, s, points, query)",
                nontrivial=lambda e: ((e["ev"], json.dumps(e.get("args"), sort_keys=True)) if e["ev"] == "Pred" else None)),
    "C14": dict(level="model_checking", families=[("determinism", 14, 16)],
                rule="for each point multiset (general position / random / degenerate, sometimes with an exact coordinate tie "
                     "under a different uuid): the same slice twice, permutations of the slice, all four ordering strategies, "
                     "the incremental route, four threads at once, and a child process re-executing every keyed "
                     "construction; TLC keeps a history variable memo[key] and requires equal coordinate-cell sets for equal "
                     "keys (the key ignores caller order for Hilbert/Morton/lexicographic) and K = DT(S) in general position. "
                     "distinct non-trivial = distinct determinism keys exercised at least twice",
                nontrivial=lambda e: (("key", e["args"].get("dkey")) if e["ev"] == "Construct" and e["args"].get("dkey") else None)),
    "C16": dict(level="model_checking", families=[("toroidal", 14, 16)],
                rule="toroidal (canonicalised) builds in D=2,3 from lattice points far outside the box (up to 2^20 periods), "
                     "negative, exactly on faces, with periods 3..12 lattice units at scales 2^-3..2^1 (so 0.375 .. 24), an "
                     "off-lattice probe just below a face, followed by three later insertions outside the box, and (2-D) the periodic "
                     "image-point mode on 9-12 points given as congruent copies shifted by whole periods; TLC checks "
                     "w = m mod L exactly, the half-open box, idempotence and the C01 certificate of the wrapped set. "
                     "distinct non-trivial = distinct successful toroidal constructions",
                nontrivial=_key_construct),
    "C17": dict(level="model_checking", pure_families=[("orderings", 14, 16)],
                rule="the complete table cell -> hilbert index for every (D, bits) with 2^(D*bits) <= 4096 (quick) / 65536 "
                     "(thorough), D=1..5, checked by TLC for bijectivity and unit steps (exhaustive over the grid); every "
                     "ordering strategy (through the hook wrappers and the public hilbert_sorted_indices / "
                     "hilbert_sort_by_stable) and every dedup variant (public exact/epsilon, and the five internal "
                     "variants) on lattice vertex lists with ties, exact duplicates, signed zeros, half-unit near "
                     "duplicates, tiny and huge scales. distinct non-trivial = distinct events",
                nontrivial=lambda e: ((e["ev"], json.dumps(e.get("args"), sort_keys=True)) if e["ev"] in ("Hilbert", "Order", "Dedup") else None)),
    "C18": dict(level="other", stages=[stage_measures],
                rule="TLC (Gen_Measures) enumerates every simplex with first vertex at the origin on small grids for "
                     "D=1..3 and a deterministic sample on {0,1,2}^D for D=4,5, with the exact integer ingredients of every "
                     "measure; each is replayed 5 times (identity, vertex permutation, lattice translation, scaling by 2^k, "
                     "all three) against simplex_volume, facet_measure, circumcenter, circumradius, inradius, radius_ratio, "
                     "normalized_volume. distinct non-trivial = distinct (points, transform) replayed",
                explanation="The TLA+ specification decides the exact value of every measure (integer determinants, Gram "
                            "determinants, Cramer numerators) and the degeneracy class, and TLC re-derives the determinant "
                            "of every replayed vector; closeness of the library's f64 result to that exact value (relative "
                            "1e-9) is a one-line float comparison in the harness, because TLC has no reals. Level 'other': "
                            "spec-generated exact vectors replayed into the implementation.",
                nontrivial=lambda e: ((e["ev"], json.dumps(e.get("args"), sort_keys=True)) if e["ev"] == "Measure" else None)),
    "C03": dict(level="fault_enumeration", families=[("failpoints", 14, 16), ("remove", 6, 16), ("insert", 6, 16), ("flips", 6, 16), ("repair", 6, 16)],
                stages=[stage_inserttxn, stage_apalache_inserttxn, stage_removetxn, stage_fliptxn],
                rule="(o'') the flip-application transaction model FlipTxn.tla replayed through failpoint scripts on the Edit API (Trace_FlipTxn: a refused handle changes nothing - found and fixed F-M - and the late "
                     "errors of the non-atomic application are KF-C03-1c); (o') the removal transaction model RemoveTxn.tla (fast inverse-k=1 path, fan path with clone / restore, "
                     "post-removal repair with outer snapshot), AllOrNothing with atomic flips and its failure as coded (KF-C03-1), "
                     "all behaviours replayed through failpoint scripts (Trace_RemoveTxn); (o) the insertion transaction model InsertTxn.tla (AllOrNothing over all policies / counts / choices) and the "
                     "replay of all its behaviours through failpoint scripts; (i) FAILPOINTS: for insert / insert_with_statistics (interior, exterior), remove_vertex, Edit-API flips (k=1,2,3) "
                     "and both repair entry points on bases in D=2..4 under three policy settings, a discovery run lists the "
                     "cfg(delaunay_verif) failpoint sites the call passes (insert attempt failing non-retryably / retryably "
                     "after the Tds was written, insert post-steps, three steps of vertex removal, three steps of flip "
                     "application, the repair postcondition) and each site is then forced at its 1st..3rd hit; a twin cloned "
                     "before runs the same unforced continuation (Compare). (ii) every mutating call that returned Err or Skipped in the insert/remove/flip/repair histories "
                     "(natural failures: duplicates, reused uuids, degenerate points, non-flippable / boundary / "
                     "out-of-range / stale / foreign handles, repair failures); distinct non-trivial = distinct "
                     "failed mutating events (kind, args, history tag)",
                nontrivial=lambda e: ((e["ev"], json.dumps(e.get("args"), sort_keys=True), e.get("tag"))
                                      if e["ev"] in ("Insert", "Remove", "Flip", "Repair")
                                      and e.get("res", {}).get("kind") in ("Err", "Skipped") else None)),
}


